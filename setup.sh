#!/bin/sh
# Builds nothing heavy: cargo-kani compiles the harness crate (and /repo) on first use.
# Only makes sure the lock file matches /repo so that offline resolution works.
set -e
cd "$(dirname "$0")"
cp /repo/Cargo.lock harness/Cargo.lock
mkdir -p work evidence replays
exit 0
