#!/usr/bin/env python3
"""Generates harnesses.json: which proof harness (in which feature configuration) serves which
property at which tier. Edit here, run, commit the result."""
import json, re, os

H = []

def add(name, config, primary, quick=(), thorough=(), timeout=1500, mem_gb=14, cost=60, **bounds):
    H.append({"name": name, "config": config, "primary": primary, "quick": sorted(set(quick)),
              "thorough": sorted(set(thorough)), "timeout": timeout, "mem_gb": mem_gb, "cost": cost,
              "bounds": bounds})

# ---- probe set: everything under pseudo property ALL (used for timing only)
for fam in ("fam_fut", "fam_stream"):
    src = open(os.path.join(os.path.dirname(os.path.abspath(__file__)), "harness/src/%s.rs" % fam)).read()
    names = re.findall(r"(?:crate::proof|sproof|fair_proof)!\((\w+),", src)
    for n in names:
        vec = "_vec" in n
        full = (fam + "::vec_proofs::" if vec else fam + "::") + n
        cfgs = ["alloc"] if vec else ["nostd"]
        for c in cfgs:
            add(full, c, "C04", quick=["ALL" if fam == "fam_fut" else "ALLS"])

json.dump({"harnesses": H, "assumptions": []}, open("harnesses.json", "w"), indent=1)
print(len(H), "entries")
