#!/usr/bin/env python3
"""Generates harnesses.json (which Kani proof harness, in which feature configuration of
/repo, serves which property at which tier) and MANIFEST.json. Edit here, run, commit."""
import json
import os

ROOT = os.path.dirname(os.path.abspath(__file__))
H = []
# wall time / peak resident memory per harness as measured by the driver on this machine
# (evidence files of a complete quick + thorough run); used for scheduling only
try:
    MEASURED = json.load(open(os.path.join(ROOT, "measured.json")))
except OSError:
    MEASURED = {}


def add(name, config, primary, quick=(), thorough=(), timeout=1500, mem_gb=None, cost=60, **bounds):
    if mem_gb is None:
        # resident-memory estimate used by the scheduler (measured peaks are in the evidence files)
        if name.startswith("fam_costream"):
            mem_gb = 10
        elif config == "std":
            mem_gb = 8
        elif "vec_proofs" in name or name.startswith("fam_group"):
            mem_gb = 8
        else:
            mem_gb = 3
    m = MEASURED.get(config + " " + name)
    if m and m.get("maxrss_gb"):
        mem_gb = max(2, int(m["maxrss_gb"] * 1.4 + 1.5))
        cost = int(m["wall_s"])
    H.append({"name": name, "config": config, "primary": primary, "quick": sorted(set(quick)),
              "thorough": sorted(set(thorough) - set(quick)), "timeout": timeout, "mem_gb": mem_gb,
              "cost": cost, "bounds": bounds})


F = "fam_fut::"
FV = "fam_fut::vec_proofs::"
S = "fam_stream::"
SV = "fam_stream::vec_proofs::"
G = "fam_group::"
GEN3 = ["C01", "C03", "C20"]
# finish() drops the combinator after the last round and asserts the ownership conditions, so
# every nostd/alloc schedule harness also decides C02 for "dropped after completion / still pending"
OWN = ["C02"]

# ------------------------------------------------------------------------------------------
# futures (nostd): (name, children, rounds, measured cost under load [s], in quick tier?)
fut = {
    "C04": [("join_arr2_r4", 2, 4, 70, 1), ("join_tup2_r4", 2, 4, 25, 1), ("join_arr0_r1", 0, 1, 12, 1),
            ("join_tup1_r3", 1, 3, 10, 1), ("join_arr1_r3", 1, 3, 17, 1), ("join_ext2_r4", 2, 4, 25, 1),
            ("join_arr3_r3", 3, 3, 50, 1), ("join_tup3_r3", 3, 3, 25, 1),
            ("join_arr3_r4", 3, 4, 95, 0), ("join_tup3_r4", 3, 4, 32, 0)],
    "C05": [("tryjoin_arr2_r4", 2, 4, 76, 1), ("tryjoin_tup2_r4", 2, 4, 24, 1), ("tryjoin_arr0_r1", 0, 1, 12, 1),
            ("tryjoin_arr3_r3", 3, 3, 55, 1), ("tryjoin_tup3_r3", 3, 3, 30, 1),
            ("tryjoin_arr3_r4", 3, 4, 105, 0), ("tryjoin_tup3_r4", 3, 4, 46, 0)],
    "C06": [("race_arr2_r4", 2, 4, 12, 1), ("race_tup2_r4", 2, 4, 8, 1), ("race_tup1_r3", 1, 3, 5, 1),
            ("race_ext2_r4", 2, 4, 8, 1), ("race_arr3_r5", 3, 5, 16, 1), ("race_tup3_r5", 3, 5, 13, 1),
            ("race_arr3_r3", 3, 3, 10, 1), ("race_tup3_r3", 3, 3, 10, 1)],
    "C07": [("raceok_arr2_r4", 2, 4, 47, 1), ("raceok_tup2_r4", 2, 4, 18, 1), ("raceok_arr0_r1", 0, 1, 8, 1),
            ("raceok_arr3_r3", 3, 3, 50, 1), ("raceok_tup3_r3", 3, 3, 25, 1),
            ("raceok_arr3_r5", 3, 5, 98, 0), ("raceok_tup3_r5", 3, 5, 47, 0)],
}
QUICK_GENERIC = {"join_tup2_r4", "tryjoin_tup2_r4", "race_arr2_r4", "raceok_tup2_r4", "join_arr2_r4", "join_tup3_r3"}
for prop, lst in fut.items():
    for (n, N, R, cost, q) in lst:
        qq = [prop] if q else []
        if n in QUICK_GENERIC:
            qq += GEN3
        add(F + n, "nostd", prop, quick=qq, thorough=[prop] + GEN3 + OWN, cost=cost,
            children=N, rounds=R, container=n.split("_")[1])
# drop harnesses (primary C02; they also decide their family's "dropped, never returned" clauses)
for (n, fam, cost) in [("join_arr2_r3_drop", "C04", 65), ("join_tup2_r3_drop", "C04", 16),
                       ("tryjoin_arr2_r3_drop", "C05", 71), ("tryjoin_tup2_r3_drop", "C05", 20),
                       ("race_arr2_r3_drop", "C06", 9), ("raceok_arr2_r3_drop", "C07", 45),
                       ("raceok_tup2_r3_drop", "C07", 16)]:
    add(F + n, "nostd", "C02", quick=["C02"] + ([fam] if fam != "C04" else []), thorough=["C02", "C03", fam],
        cost=cost, children=2, rounds=3, drop_point="symbolic 0..=3 polls")
# Vec (alloc configuration)
for (n, prop, cost, q) in [("join_vec0_r1", "C04", 14, 1), ("join_vec2_r3", "C04", 150, 1),
                           ("join_vec2_r4", "C04", 324, 0), ("join_vec3_r4", "C04", 358, 0),
                           ("tryjoin_vec0_r1", "C05", 14, 1), ("tryjoin_vec2_r3", "C05", 180, 1),
                           ("tryjoin_vec2_r4", "C05", 421, 0),
                           ("race_vec2_r4", "C06", 15, 1), ("race_vec3_r5", "C06", 32, 1),
                           ("raceok_vec0_r1", "C07", 7, 1), ("raceok_vec2_r3", "C07", 150, 1),
                           ("raceok_vec2_r4", "C07", 279, 0), ("raceok_vec3_r5", "C07", 480, 0)]:
    add(FV + n, "alloc", prop, quick=([prop] if q else []) + (OWN if n == "tryjoin_vec2_r3" else []), thorough=[prop] + GEN3 + OWN, cost=cost, container="Vec")
for (n, fam, cost, q) in [("join_vec2_r3_drop", "C04", 258, 0), ("raceok_vec2_r3_drop", "C07", 168, 1), ("tryjoin_vec2_r3_drop", "C05", 300, 0)]:
    add(FV + n, "alloc", "C02", quick=["C02"] if q else [], thorough=["C02", fam], cost=cost, container="Vec",
        drop_point="symbolic 0..=3 polls")

# ------------------------------------------------------------------------------------------
# streams (nostd)
st = {
    "C08": [("merge_arr2_k2_r5", 45, 1), ("merge_tup2_k2_r5", 34, 1), ("merge_ext2_k2_r5", 36, 1), ("merge_tup1_k2_r4", 13, 1),
            ("merge_arr0_r1", 8, 1), ("merge_tup0_r1", 4, 1), ("merge_arr3_k1_r4", 40, 1), ("merge_tup3_k1_r4", 40, 1),
            ("merge_arr2_k1_r3", 15, 0), ("merge_tup2_k1_r3", 12, 0), ("merge_arr3_k1_r6", 72, 0), ("merge_tup3_k1_r6", 68, 0)],
    "C09": [("zip_arr2_k2_r5", 75, 1), ("zip_tup2_k2_r5", 61, 1), ("zip_ext2_k2_r5", 61, 1), ("zip_tup1_k2_r4", 19, 1),
            ("zip_arr3_k1_r3", 40, 1), ("zip_tup3_k1_r3", 35, 1), ("zip_arr2_k1_r3", 20, 0), ("zip_tup2_k1_r3", 18, 0),
            ("zip_arr3_k1_r5", 121, 0), ("zip_tup3_k1_r5", 96, 0)],
    "C10": [("chain_arr2_k1_r4", 40, 1), ("chain_tup2_k1_r4", 30, 1), ("chain_ext2_k1_r4", 30, 1), ("chain_arr0_r1", 4, 1),
            ("chain_arr3_k1_r3", 40, 1), ("chain_tup3_k1_r3", 35, 1),
            ("chain_arr2_k2_r6", 289, 0), ("chain_tup2_k2_r6", 135, 0), ("chain_arr3_k1_r6", 359, 0), ("chain_tup3_k1_r6", 253, 0)],
}
QUICK_GENERIC_S = {"merge_tup2_k2_r5", "zip_arr2_k2_r5", "chain_tup2_k1_r4", "merge_arr2_k2_r5", "merge_arr3_k1_r4"}
for prop, lst in st.items():
    gen = ["C01", "C03"] + (["C20"] if prop != "C10" else [])
    for (n, cost, q) in lst:
        qq = [prop] if q else []
        if n in QUICK_GENERIC_S:
            qq += gen
        add(S + n, "nostd", prop, quick=qq, thorough=[prop] + gen + OWN, cost=cost)
for (n, fam, cost) in [("merge_arr2_k2_r4_drop", "C08", 37), ("merge_tup2_k2_r4_drop", "C08", 25),
                       ("zip_arr2_k2_r4_drop", "C09", 65), ("zip_tup2_k2_r4_drop", "C09", 51),
                       ("chain_arr2_k2_r4_drop", "C10", 108)]:
    add(S + n, "nostd", "C02", quick=(["C02"] + ([fam] if fam == "C09" else [])) if cost < 70 else [],
        thorough=["C02", "C03", fam], cost=cost, drop_point="symbolic 0..=4 polls")
for (n, prop, cost, q) in [("merge_vec2_k2_r5", "C08", 62, 1), ("merge_vec0_r1", "C08", 10, 1), ("merge_vec3_k1_r3", "C08", 90, 1),
                           ("zip_vec2_k2_r5", "C09", 146, 1), ("zip_vec2_k1_r3", "C09", 60, 0),
                           ("chain_vec2_k1_r4", "C10", 60, 1), ("chain_vec3_k1_r3", "C10", 90, 1),
                           ("chain_vec0_r1", "C10", 8, 1), ("chain_vec2_k2_r6", "C10", 312, 0)]:
    add(SV + n, "alloc", prop, quick=[prop] if q else [], thorough=[prop, "C01", "C03"] + OWN, cost=cost, container="Vec")
for (n, fam, cost) in [("merge_vec2_k2_r4_drop", "C08", 58), ("zip_vec2_k2_r4_drop", "C09", 115)]:
    add(SV + n, "alloc", "C02", quick=["C02", fam], thorough=["C02", fam], cost=cost, container="Vec")
# wait_until
add(S + "waituntil_stream_k2_r6", "nostd", "C19", quick=["C19"], thorough=["C19", "C03"], cost=22, rounds=6, items=2)
add(S + "waituntil_future_r5", "nostd", "C19", quick=["C19"], thorough=["C19", "C03"], cost=11, rounds=5)
# fairness
add("unit::indexer_rotation", "nostd", "C17", quick=["C17", "C06"], cost=5, max="1..=16", offset="0..=17 previous calls")
for (n, cost) in [("fair_merge_arr2_r5", 19), ("fair_merge_tup2_r5", 17), ("fair_merge_arr3_r7", 76), ("fair_merge_tup3_r7", 66)]:
    add(S + n, "nostd", "C17", quick=["C17"], thorough=["C17"], cost=cost, favoured="symbolic position, always has an item")
add(SV + "fair_merge_vec2_r5", "alloc", "C17", quick=["C17"], thorough=["C17"], cost=30)
add(SV + "fair_merge_vec3_r7", "alloc", "C17", quick=["C17"], thorough=["C17"], cost=200)

# ------------------------------------------------------------------------------------------
# wide cases: tuple arity 12 (macro index lists), small schedule (each child resolves on its 1st or 2nd poll)
W = "wide::"
add(W + "join_tup12", "nostd", "C04", quick=["C04"], cost=50, children=12, polls=2)
add(W + "tryjoin_tup12", "nostd", "C05", quick=["C05"], cost=55, children=12, polls=2)
add(W + "race_tup12", "nostd", "C06", quick=["C06"], cost=5, children=12, polls=2)
add(W + "raceok_tup12_all_err", "nostd", "C07", quick=["C07"], cost=15, children=12, polls=2)
add(W + "zip_tup12", "nostd", "C09", thorough=["C09"], cost=350, mem_gb=8, children=12, items_each=1)
add(W + "merge_tup12", "nostd", "C08", thorough=["C08"], cost=800, mem_gb=8, timeout=2400, children=12, items_each=1)

# ------------------------------------------------------------------------------------------
# std configuration: readiness tracking really reads bits (C01 wake path, C16)
STD = ["C01", "C16"]
add("unit::std_wakers::waker_array_k5", "std", "C01", quick=STD, cost=40, ops=5, slots=2)
add("unit::std_wakers::waker_array_k7", "std", "C01", thorough=STD, cost=120, ops=7, slots=2)
add("unit::std_wakers::waker_vec_k3", "std", "C01", quick=STD, cost=40, ops=3, slots="1 -> 3 (resize)")
add(F + "join_arr2_r4", "std", "C16", quick=STD + ["C04", "C20", "C03"], cost=40, children=2, rounds=4)
add(F + "join_arr3_r3", "std", "C16", quick=STD + ["C04", "C20"], thorough=["C03"], cost=60, children=3, rounds=3)
add(F + "tryjoin_arr2_r3", "std", "C16", quick=STD + ["C05"], thorough=["C03", "C20"], cost=100, children=2, rounds=3)
add(F + "tryjoin_arr3_r3", "std", "C16", thorough=STD + ["C05", "C03", "C20"], cost=150, children=3, rounds=3)
add(F + "tryjoin_arr2_r4", "std", "C16", thorough=STD + ["C05", "C03", "C20"], cost=270, children=2, rounds=4)
add(F + "join_tup2_r3", "std", "C16", quick=STD + ["C04"], thorough=["C03", "C20"], cost=150, children=2, rounds=3)
add(F + "tryjoin_tup2_r3", "std", "C16", quick=STD + ["C05"], thorough=["C03", "C20"], cost=160, children=2, rounds=3)
add(F + "join_tup3_r3", "std", "C16", thorough=STD + ["C04", "C03", "C20"], cost=260, children=3, rounds=3)
add(F + "join_tup2_r4", "std", "C16", thorough=STD + ["C04", "C03", "C20"], cost=300, children=2, rounds=4)
add(FV + "join_vec2_r2_quiet", "std", "C16", quick=[], thorough=["C16", "C04", "C01", "C03", "C20"], cost=450, timeout=2400, mem_gb=18, children=2, rounds=2,
    note="children do not wake from inside a poll; unwind 4")
add(FV + "tryjoin_vec2_r2_quiet", "std", "C16", quick=[], thorough=["C16", "C05", "C01", "C03", "C20"], cost=500, timeout=2400, mem_gb=18, children=2, rounds=2,
    note="children do not wake from inside a poll; unwind 4")
add(FV + "join_vec2_r3_quiet", "std", "C16", quick=[], thorough=["C16", "C04", "C01", "C03", "C20"], cost=960, timeout=3000, mem_gb=30, children=2, rounds=3,
    note="children do not wake from inside a poll; unwind 4")
add(SV + "merge_vec3_k1_r3", "std", "C16", thorough=["C16", "C08", "C01", "C03", "C20"], cost=850, timeout=3000, mem_gb=17, children=3, rounds=3)
add(S + "merge_arr2_k1_r3", "std", "C16", quick=STD + ["C08"], thorough=["C03", "C20"], cost=300, mem_gb=13, children=2, rounds=3)
add(S + "merge_tup2_k1_r3", "std", "C16", quick=STD + ["C08"], thorough=["C03", "C20"], cost=320, mem_gb=13, children=2, rounds=3)
add(S + "zip_arr2_k1_r3", "std", "C16", quick=STD + ["C09"], thorough=["C03", "C20"], cost=330, mem_gb=13, children=2, rounds=3)
add(S + "zip_tup2_k1_r3", "std", "C16", quick=STD + ["C09"], thorough=["C03", "C20"], cost=300, mem_gb=13, children=2, rounds=3)
add(SV + "zip_vec2_k1_r3", "std", "C16", thorough=["C16", "C09", "C01", "C03", "C20"], cost=600, timeout=2400, mem_gb=14, children=2, rounds=3)
add(S + "merge_arr2_k2_r5", "std", "C16", thorough=STD + ["C08", "C03", "C20"], cost=830, timeout=3000, mem_gb=40, children=2, rounds=5)
add(S + "merge_tup2_k2_r5", "std", "C16", thorough=STD + ["C08", "C03", "C20"], cost=830, timeout=3000, mem_gb=40, children=2, rounds=5)
add(S + "zip_arr2_k2_r5", "std", "C16", thorough=STD + ["C09", "C03", "C20"], cost=660, timeout=3000, mem_gb=40, children=2, rounds=5)
# pass-through combinators in std (same code, but run once with the std waker types linked in)
add(F + "race_arr2_r4", "std", "C06", thorough=["C06", "C01", "C03"], cost=20)
add(S + "fair_merge_arr2_r5", "std", "C17", thorough=["C17"], cost=300)

# ------------------------------------------------------------------------------------------
# groups (alloc configuration, with the verif-keyset hook): scripted operation histories
GF = ["C11", "C03", "C20", "C02"]
for (n, cost, hist) in [("fgroup_micro2", 10, "insert, poll"), ("fgroup_micro3", 20, "insert, poll, poll"),
                        ("fgroup_micro4", 30, "insert, insert, poll, poll"),
                        ("fgroup_drain2", 100, "insert x2, poll x4"), ("fgroup_keyed_drain2", 100, "keyed: insert x2, poll x4"),
                        ("fgroup_ins3_poll3", 60, "insert x3, poll x3"),
                        ("fgroup_remove_mid", 30, "insert, insert, remove(first), poll, insert, poll"),
                        ("fgroup_keyed_remove_mid", 30, "keyed: insert, insert, remove(first), poll, insert, poll"),
                        ("fgroup_rsv_first", 20, "reserve(2), insert, insert, poll, poll"),
                        ("fgroup_reuse_after_remove", 25, "insert, poll (pending), remove, insert (slot reused), poll, poll"),
                        ("fgroup_grow_live", 25, "insert, poll (pending), insert (capacity grows), poll, poll")]:
    add(G + n, "alloc", "C11", quick=["C11"] + (["C03", "C20", "C02"] if n in ("fgroup_ins3_poll3", "fgroup_remove_mid") else []),
        thorough=GF, cost=cost, history=hist, members="<= 3", member_behaviour="symbolic, no wake-ups from inside polls (alloc: wakers carry no readiness)")
# histories added in round 3 (several removals, extend, polling an empty group, a member ending and a
# later one yielding in the same poll followed by slot reuse)
for (n, cost, q, hist) in [("fgroup_remove_two", 40, 1, "insert, insert, remove(0), remove(1), poll"),
                           ("fgroup_remove_two_any", 65, 1, "insert x3, remove(any), remove(any), poll, poll"),
                           ("fgroup_keyed_remove_two_any", 200, 0, "keyed: insert x3, remove(any), remove(any), poll, poll"),
                           ("fgroup_remove_after_yield", 60, 1, "insert, insert, poll (member 0 resolves), remove(1), poll"),
                           ("fgroup_empty_poll_then_use", 40, 1, "poll (empty: None), insert, poll, poll"),
                           ("fgroup_extend2", 60, 1, "extend(2 futures), poll x3"),
                           ("fgroup_insert_extend2", 100, 0, "insert, extend(2 futures), poll x3")]:
    add(G + n, "alloc", "C11", quick=["C11"] if q else [], thorough=GF, cost=cost, history=hist, members="<= 3",
        member_behaviour="symbolic where not scripted, no wake-ups from inside polls")
GS = ["C12", "C03", "C20", "C02"]
for (n, cost, q, hist) in [("sgroup_remove_two", 40, 1, "insert, insert, remove(0), remove(1), poll"),
                           ("sgroup_remove_after_end", 40, 1, "insert, insert, poll (member 0 ends, member 1 pending), remove(1)"),
                           ("sgroup_empty_poll_then_use", 40, 1, "poll (empty: None), insert, poll"),
                           ("sgroup_end_and_item_same_poll", 40, 1, "insert, insert, poll (member 0 ends, member 1 yields in the same poll)")]:
    add(G + n, "alloc", "C12", quick=["C12"] if q else [], thorough=GS, cost=cost, history=hist, members="<= 3",
        member_behaviour="symbolic where not scripted, no wake-ups from inside polls")
for (n, cost, hist) in [("sgroup_micro2", 10, "insert, poll"), ("sgroup_keyed_micro2", 10, "keyed: insert, poll"),
                        ("sgroup_rem_then_poll", 12, "insert, insert, remove(first), poll"),
                        ("sgroup_pending_then_any", 12, "insert, poll (pending), poll"),
                        ("sgroup_item_then_any", 12, "insert, poll (item), poll"),
                        ("sgroup_keyed_item_then_any", 12, "keyed: insert, poll (item), poll"),
                        ("sgroup_two_end_same_poll", 140, "insert, insert, poll")]:
    add(G + n, "alloc", "C12", quick=(["C12"] + (["C03", "C20", "C02"] if n in ("sgroup_item_then_any", "sgroup_rem_then_poll") else [])) if cost < 100 else [],
        thorough=GS, cost=cost, mem_gb=24 if cost >= 100 else None, history=hist, members="<= 2", member_behaviour="symbolic where not scripted, no wake-ups from inside polls")

# ------------------------------------------------------------------------------------------
# concurrent-stream adapters (alloc)
C = "fam_costream::"
for (n, cost, q, mem) in [("co_take_l2", 240, 0, 10), ("co_take_l0", 10, 1, 3), ("co_take_l1", 40, 1, 4),
                          ("co_enumerate_l2", 120, 1, 6), ("co_map_l2", 80, 1, 4),
                          ("co_take_take_l2", 200, 0, 15), ("co_enumerate_take_l2", 340, 0, 22),
                          ("co_map_take_l2", 300, 0, 16), ("co_take_enumerate_l2", 250, 0, 16), ("co_take_map_l2", 250, 0, 16),
                          ("co_limit_map_take_l2", 300, 0, 20), ("co_enumerate_map_take_l2", 400, 0, 24),
                          ("co_take_enumerate_map_l2", 400, 0, 24), ("co_limit_forwarding", 5, 1, 2),
                          ("co_take_l3", 600, 0, 24), ("co_enumerate_take_l3", 900, 0, 30)]:
    add(C + n, "alloc", "C15", quick=["C15"] if q else [], thorough=["C15"], cost=cost, timeout=3000, mem_gb=mem,
        source_len=n[-1] if n[-2] == "l" else "n/a", n="symbolic 0..=3", pending_per_item="0..=1 for depth-1 stacks, 0 for deeper stacks")

# out-of-order sink (completion order != source order)
add(C + "co_enumerate_buf_l2", "alloc", "C15", quick=["C15"], cost=150, mem_gb=14, timeout=2400, source_len=2, sink="parks the futures, completes them in a solver-chosen order", pending_per_item="0..=1")
add(C + "co_map_enumerate_buf_l2", "alloc", "C15", thorough=["C15"], cost=750, mem_gb=24, timeout=3000, source_len=2, sink="out of order")
add(C + "co_enumerate_take_buf_l2", "alloc", "C15", thorough=["C15"], cost=600, mem_gb=34, timeout=3000, source_len=2, sink="out of order", n="symbolic 0..=3")

# groups in the std configuration (quiet members: wake-ups between operations only)
GS_ = "fam_group::std_proofs::"
for (n, cost, mem, q, fam, hist) in [
        ("fgroup_std_micro3", 76, 5, 1, "C11", "insert, poll, poll"),
        ("fgroup_std_keyed_micro3", 80, 5, 0, "C11", "keyed: insert, poll, poll"),
        ("fgroup_std_micro4", 150, 6, 0, "C11", "insert, poll, poll, poll"),
        ("fgroup_std_two", 360, 10, 0, "C11", "insert, insert, poll, poll"),
        ("fgroup_std_remove", 280, 9, 0, "C11", "insert, insert, poll (member 0 pending), remove(0), poll"),
        ("fgroup_std_grow_live", 600, 34, 0, "C11", "insert, poll (pending), insert (capacity grows), poll"),
        ("fgroup_std_rsv_live", 400, 26, 0, "C11", "insert, poll (pending), reserve(1), poll"),
        ("fgroup_std_reuse_after_remove", 30, 3, 1, "C11", "insert, poll (pending, not woken), remove, insert (slot reused), poll"),
        ("sgroup_std_reuse_after_remove", 40, 4, 1, "C12", "insert, poll (pending, not woken), remove, insert (slot reused), poll"),
        ("fgroup_std_selfwake_p", 25, 3, 1, "C11", "insert, poll (pending; may wake itself from inside the poll), poll"),
        ("fgroup_std_keyed_selfwake_p", 25, 3, 0, "C11", "keyed: same"),
        ("fgroup_std_two_wakes_pp", 60, 4, 1, "C11", "insert, insert, poll (both pending; self and sibling wakes from inside polls), poll"),
        ("sgroup_std_selfwake_p", 30, 3, 1, "C12", "insert, poll (pending; may wake itself from inside the poll), poll"),
        ("sgroup_std_two_wakes_pp", 400, 12, 0, "C12", "insert, insert, poll (both pending; self and sibling wakes from inside polls), poll"),
        ("sgroup_std_pending_then_any", 35, 3, 1, "C12", "insert, poll (pending), poll"),
        ("sgroup_std_item_then_any", 61, 4, 1, "C12", "insert, poll (item), poll"),
        ("sgroup_std_two", 900, 36, 0, "C12", "insert, insert, poll, poll"),
        ("sgroup_std_grow_live", 600, 34, 0, "C12", "insert, poll (pending), insert (capacity grows), poll")]:
    props = ["C01", "C16", fam, "C03", "C20"]
    add(GS_ + n, "std", "C16", quick=props if q else [], thorough=props, cost=cost, mem_gb=mem, timeout=3000, history=hist,
        member_behaviour="symbolic results where not scripted; wake-ups between operations (fire phase); from inside polls only in the *wake* histories")

# nests of combinators (leaves are the scripted children; family oracles are stated over leaves)
NE = "nest::"
for (n, prop, cost, q) in [("nest_join_tt_r3", "C04", 40, 1), ("nest_join_tt_r4", "C04", 80, 0), ("nest_join_ta_r3", "C04", 180, 0),
                           ("nest_join_a1t_r3", "C04", 30, 1), ("nest_tryjoin_tt_r3", "C05", 60, 1),
                           ("nest_merge_tt_k1_r4", "C08", 80, 1),
                           ("nest_merge_a1t_k2_r5", "C08", 60, 1)]:
    add(NE + n, "nostd", prop, quick=([prop, "C01", "C03", "C20"] if q else []), thorough=[prop, "C01", "C03", "C20", "C02"], cost=cost,
        nesting="2 levels", leaves=2 if "a1t" in n else 3)
for (n, prop, cost) in [("nest_join_tt_r3_drop", "C04", 40), ("nest_tryjoin_tt_r3_drop", "C05", 60), ("nest_merge_tt_k1_r3_drop", "C08", 60)]:
    add(NE + n, "nostd", "C02", quick=["C02"], thorough=["C02", "C03", prop], cost=cost, nesting="2 levels", drop_point="symbolic 0..=3 polls")

# FromStream (`stream.co()`): the real driver between a scripted stream and the harness sink
add(C + "co_from_stream_k0_p2", "alloc", "C03", quick=["C03", "C15"], cost=110, mem_gb=4, source="scripted stream, 0 items", driver_polls=2)
add(C + "co_from_stream_k1_p3", "alloc", "C03", quick=["C03", "C15"], cost=110, mem_gb=5, source="scripted stream, <= 1 item", driver_polls=3)
add(C + "co_from_stream_k2_p5", "alloc", "C03", thorough=["C03", "C15"], cost=600, mem_gb=20, timeout=3000, source="scripted stream, <= 2 items", driver_polls=5)

ASSUMPTIONS = [
    "bounded: every claim holds only for the children / rounds / items / history lengths listed per harness (unwinding assertions are on, so a bound that is too small is reported, not silently truncated)",
    "Kani 0.68 models panics as the end of the path: no unwinding, so the panic-in-child clause of C02 is outside the claim",
    "Kani is sequential: wake-ups from another thread are covered only through the reduction argued in DESIGN.md section 2.6 (every wake is an atomic lock/set/unlock action)",
    "std configuration stubs: std::sync::Mutex::lock -> try_lock (WouldBlock reported as deadlock); core::array::from_fn -> write loop; Waker::wake_by_ref -> clone().wake() with a concrete recursion guard; Arc::drop_slow -> reported (std schedule harnesses leak the combinator instead of dropping it)",
    "--no-assertion-reach-checks: vacuity is guarded by explicit kani::cover! witnesses per harness instead of Kani's per-assertion reachability checks (which made every run 10-30x slower)",
    "reads of uninitialised memory are detected only through their consequences (wrong value, drop accounting), not as such (-Z uninit-checks ICEs on this image)",
    "scripted children never return Ready/None twice; everything else they do is a solver variable",
]


def promote_cheap():
    """Every harness that is cheap (measured <= 60 s under load) serves, in the quick tier, all
    the properties it serves at all: the generic assertions (C01, C02, C03, C20) then see every
    container / family in the check that runs on every change."""
    for h in H:
        if h["cost"] <= 60 and h["quick"]:
            h["quick"] = sorted(set(h["quick"]) | set(h["thorough"]))
            h["thorough"] = []


def promote_representatives():
    """The generic properties (C01, C03, C20) get, in the quick tier, at least one schedule
    harness with >= 2 children per (family x container) in the cheap configurations, whatever
    it costs (the cheapest one is taken)."""
    import re
    best = {}
    for h in H:
        m = re.match(r"^(?:fam_fut|fam_stream)::(?:vec_proofs::)?(join|tryjoin|race|raceok|merge|zip|chain)_(tup|arr|vec|ext)(\d)_(?!.*(?:drop|quiet))", h["name"])
        if not m or h["config"] == "std" or int(m.group(3)) < 2 or not h["quick"]:
            continue
        k = (m.group(1), m.group(2))
        if k not in best or h["cost"] < best[k]["cost"]:
            best[k] = h
    for h in best.values():
        h["quick"] = sorted(set(h["quick"]) | set(h["thorough"]))
        h["thorough"] = []


def promote_std_generic():
    """A std harness that is in the quick tier for some property serves C03 and C20 there too
    (the result is shared through the cache; found necessary by seeded change C20-m2, an array
    merge change that only manifests with real readiness tracking)."""
    for h in H:
        if h["config"] == "std" and h["quick"]:
            extra = set(h["thorough"]) & {"C03", "C20"}
            h["quick"] = sorted(set(h["quick"]) | extra)
            h["thorough"] = sorted(set(h["thorough"]) - extra)


def main():
    promote_cheap()
    promote_representatives()
    promote_std_generic()
    json.dump({"harnesses": H, "assumptions": ASSUMPTIONS}, open(os.path.join(ROOT, "harnesses.json"), "w"), indent=1)
    props = sorted({p for h in H for p in h["quick"] + h["thorough"]})
    print(len(H), "entries;", "properties:", " ".join(props))
    for p in props:
        q = [h for h in H if p in h["quick"]]
        t = [h for h in H if p in h["quick"] or p in h["thorough"]]
        print("  %s quick=%d (cost %d) thorough=%d (cost %d)" % (p, len(q), sum(h["cost"] for h in q), len(t), sum(h["cost"] for h in t)))


# ------------------------------------------------------------------------------------------
# MANIFEST.json

LEVEL = {
    "category": "model_checking",
}

TEXT = {
    "C01": "Bounded model checking (Kani/CBMC) of the real poll/wake code: scripted children whose every decision (Pending, self-wake, wake a sibling, Ready/item/None) and every between-poll wake-up is a solver variable; asserts the lost-wake invariant W after every Pending poll and fire phase, that woken children are polled, and that no wake panics or re-locks; plus unit proofs of the real WakerArray/WakerVec (std). Nests of combinators (join in join, try_join in try_join, merge in merge) are decided in the no_std configuration; FutureGroup/StreamGroup in std with wake-ups between operations and, with the first outcome of each member scripted, from inside member polls.",
    "C02": "BMC with drop-accounting tokens: every scripted child and every value carries a counter checked at its Drop (double drop fails at the drop site) and at the end (leak), with the combinator dropped after a solver-chosen number of polls (0, mid-flight, after completion). Every nostd/alloc schedule harness ends by dropping the combinator and checking the accounts; groups (alloc) included.",
    "C03": "BMC: the scripted children assert inside poll that they are polled only inside their owner's poll, never after Ready/None, never after the combinator decided, never after removal - in every schedule harness, including stale wake-ups fired after completion. Group members included; the real FromStream::drive (stream.co()) is run over a scripted source stream with a harness consumer: the source is never polled after None.",
    "C04": "BMC of join over tuple/array/Vec: Ready exactly in the poll in which the last child resolves, each output at its child's position, zero children resolve on the first poll.",
    "C05": "BMC of try_join: Ok iff all Ok (positional); the error returned is the first one observed, in that poll; nothing polled afterwards; produced values dropped, never returned.",
    "C06": "BMC of race: resolves in the first poll in which a child resolves, with the first child seen to resolve; nothing polled afterwards; losers dropped unfinished; plus the real Indexer proved to be a rotation.",
    "C07": "BMC of race_ok: first Ok wins in that poll; Err only when the last child fails, aggregate positional; failed children never re-polled; zero futures give the empty aggregate.",
    "C08": "BMC of merge: every item exactly once and in its input's order, None iff all inputs ended (first poll for zero inputs), never Pending in a poll in which an input produced an item.",
    "C09": "BMC of zip: k-th row = k-th items positionally, None in the poll in which an input ends, at most one extra item taken per input, unmatched items dropped not yielded.",
    "C10": "BMC of chain: output is the concatenation in input order; an input is not polled before all earlier inputs returned None; None after the last input (first poll for zero inputs).",
    "C11": "BMC of FutureGroup over scripted operation histories (insert / remove / reserve / poll, plain and keyed view, slot reuse after removal, growth while a member is pending) with symbolic member behaviour, against a reference set of live flags: len/is_empty/contains_key/capacity after every step, keys of live members distinct, each output exactly once with its key, removed members dropped at removal and never polled, None iff empty. Key set = verif-keyset hook instead of BTreeSet. Round 3: several removals (also solver-chosen among three members), extend, polling an empty group, std: slot reuse after remove of a sleeping member, wake-ups from inside member polls.",
    "C12": "BMC of StreamGroup over short scripted histories (insert / remove / poll, plain and keyed): items exactly once and in member order with the right key, members that end are dropped and forgotten in that poll (also two in one poll), len/is_empty/contains_key exact, None iff no members remain. Key set = verif-keyset hook instead of BTreeSet. Round 3: two removals, a member ending while a later one yields in the same poll, polling an empty group, std: slot reuse after remove, wake-ups from inside member polls (first outcomes scripted).",
    "C15": "BMC of the real Take/Enumerate/Map/Limit adapters (and their private consumers/futures) between a harness source and sink through the public ConcurrentStream/Consumer traits: exactly the first min(n,len) items, none for n = 0, enumerate index = source position, map closure once per item, limit forwarding.",
    "C16": "BMC in the std configuration: scripted children assert that a re-poll after Pending only happens if one of their wakers fired (or they were legitimately re-armed after yielding); unit proofs show that only a wake of sub-waker i sets bit i and that an already-ready child does not wake the task again.",
    "C17": "Unit proof that the real Indexer::iter yields the rotation (offset+k) mod max for every max in 1..=16 and every offset, plus merge-level BMC with an always-ready input at a solver-chosen position: never N consecutive items without one of its items.",
    "C19": "BMC of wait_until (future and stream): inner not polled before the deadline resolved, deadline never polled afterwards, inner polled in the very poll in which the deadline resolves, afterwards identical to the inner.",
    "C20": "BMC: after every poll that returns Pending every owned child has been polled at least once; children may stay Pending forever (no pending budget), and the family oracles still require the siblings' results to be delivered. In the groups: every live member polled before a Pending return; a child woken before a poll that returns Pending was polled in it.",
}

NOTE = "Trusted: rustc/Kani 0.68 code generation, CBMC 6.11 + CaDiCaL, std's Mutex/Arc/BTreeSet; stubs listed in DESIGN.md section 2.5; bounds per harness in harnesses.json (N <= 3 children, <= 7 polls, <= 7 items); no unwinding (panic = end of path); sequential execution."

NA = [
    ("C13", "for_each is only reachable through futures_buffered::FuturesUnordered (spin mutex, diatomic-waker try-lock loops, intrusive waker slab): a single poll of a 2-item for_each exhausted 14 GB in CBMC; replacing it by a model would decide the model, not the code."),
    ("C14", "try_for_each / collect::<Result<Vec<_>,_>>: same FuturesUnordered dependency as C13; not encodable within the sandbox's memory."),
    ("C18", "Send/Sync propagation is decided by rustc's trait solver parametrically at compile time; there is no execution to make symbolic and no SMT query to pose - a type check is a different technique from the one this task studies."),
]


def manifest():
    props = sorted({p for h in H for p in h["quick"] + h["thorough"]})
    checks = []
    for p in props:
        checks.append({
            "property_id": p,
            "quick_cmd": "./check %s --tier quick" % p,
            "thorough_cmd": "./check %s --tier thorough" % p,
            "evidence_file": "evidence/%s.json" % p,
            "replay_cmd_template": "./check --replay {path}",
            "engine": "kani-cbmc",
            "level_claimed": {"category": "model_checking", "text": TEXT[p], "design_ref": "DESIGN.md section 5, " + p},
            "level_note": NOTE,
            "technique": "bounded model checking of the real Rust code: Kani 0.68 -> CBMC 6.11 -> CaDiCaL (SAT), symbolic schedules/inputs via kani::any(), unwinding assertions on, kani::cover! vacuity witnesses, native concrete-playback replay",
        })
    m = {
        "version": 1,
        "setup_cmd": "./setup.sh",
        "hooks": {
            "guard": "cargo feature `verif-keyset` of futures-concurrency (off by default)",
            "enable": "the harness crate /verif/harness enables futures-concurrency/verif-keyset in its alloc and std configurations (FutureGroup/StreamGroup then keep their keys in src/utils/verif_keyset.rs instead of BTreeSet); everything else needs no hook: path dependency on /repo, private utilities compiled through #[path]",
            "baseline_off_cmd": "cd /repo && cargo test --workspace --no-fail-fast --offline",
            "source_commits": ["8d4d057"],
            "add_only": True,
        },
        "engines": [{"name": "kani-cbmc", "path": "/verif/check", "serves_properties": props,
                     "kind_free_text": "Kani 0.68.0 proof harnesses (/verif/harness) over the real crate, CBMC 6.11.0 with CaDiCaL; driver /verif/check; registry /verif/harnesses.json"}],
        "checks": checks,
        "not_applicable": [{"property_id": p, "reason": r} for p, r in NA],
        "notes": "Genuine defects found and repaired in /repo with 'fix:' commits are listed in known_findings.txt (merge of zero streams, take(0)). Results of identical (tree, harness) pairs are cached under work/cache keyed by a hash of /repo's working tree and the harness sources, so that properties sharing a harness do not re-run it; any edit to /repo or /verif/harness invalidates the cache.",
    }
    json.dump(m, open(os.path.join(ROOT, "MANIFEST.json"), "w"), indent=1)


if __name__ == "__main__":
    main()
    manifest()
