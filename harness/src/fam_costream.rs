//! Concurrent-stream adapters (C15): the real `Take`, `Enumerate`, `Map`, `Limit` (and their
//! private consumers / futures) driven through the public `ConcurrentStream` / `Consumer`
//! traits between a harness source and a harness sink. Terminal operations built on
//! `futures_buffered::FuturesUnordered` (`collect`, `for_each`, `try_for_each`) are outside
//! CBMC's reach (DESIGN.md, C13/C14) and are not used here.
#![cfg(feature = "alloc")]
#![allow(static_mut_refs)]

use crate::cover;
use crate::kit::{any_u8, assume, parent_waker};
use core::future::Future;
use core::num::NonZeroUsize;
use core::pin::Pin;
use core::task::{Context, Poll};
use futures_concurrency::concurrent_stream::{ConcurrentStream, Consumer, ConsumerState};

pub const LMAX: usize = 4;
/// upper bound of the per-item pending count (1 for stacks of depth <= 2, 0 for depth >= 2)
pub static mut PENDS_MAX: u8 = 1;

pub struct Log {
    /// number of items the source handed to `send`
    pub sent: usize,
    /// received by the sink, in order: (source position, enumerate index or 255)
    pub recv: [(u8, u8); LMAX],
    pub nrecv: usize,
    /// invocations of the map closure per source position
    pub mapped: [u8; LMAX],
    /// the source saw `Break`
    pub broke: bool,
    pub flushed: bool,
}

pub static mut LOG: Log = Log {
    sent: 0,
    recv: [(255, 255); LMAX],
    nrecv: 0,
    mapped: [0; LMAX],
    broke: false,
    flushed: false,
};

fn log() -> &'static mut Log {
    unsafe { &mut LOG }
}

fn reset_log() {
    unsafe {
        LOG = Log {
            sent: 0,
            recv: [(255, 255); LMAX],
            nrecv: 0,
            mapped: [0; LMAX],
            broke: false,
            flushed: false,
        };
    }
}

/// Per-item future of the source: pends a solver-chosen number of times (0..=2), waking
/// itself, then yields its source position.
pub struct ItemFut {
    pos: u8,
    pends: u8,
}

impl ItemFut {
    fn new(pos: usize) -> Self {
        let p = any_u8();
        assume(p <= unsafe { PENDS_MAX });
        ItemFut { pos: pos as u8, pends: p }
    }
}

impl Future for ItemFut {
    type Output = u8;
    fn poll(mut self: Pin<&mut Self>, cx: &mut Context<'_>) -> Poll<u8> {
        if self.pends > 0 {
            self.pends -= 1;
            cx.waker().wake_by_ref();
            Poll::Pending
        } else {
            Poll::Ready(self.pos)
        }
    }
}

/// Harness source: `len` items, positions 0..len, stops at `Break`, then flushes.
pub struct Src {
    pub len: usize,
}

impl ConcurrentStream for Src {
    type Item = u8;
    type Future = ItemFut;

    async fn drive<C>(self, consumer: C) -> C::Output
    where
        C: Consumer<Self::Item, Self::Future>,
    {
        let mut consumer = core::pin::pin!(consumer);
        let mut i = 0;
        while i < self.len {
            log().sent += 1;
            match consumer.as_mut().send(ItemFut::new(i)).await {
                ConsumerState::Break => {
                    log().broke = true;
                    break;
                }
                ConsumerState::Continue | ConsumerState::Empty => {}
            }
            i += 1;
        }
        consumer.as_mut().flush().await
    }

    fn concurrency_limit(&self) -> Option<NonZeroUsize> {
        None
    }
}

/// What the sink can record about an item.
pub trait Rec {
    fn rec(self) -> (u8, u8);
}
impl Rec for u8 {
    fn rec(self) -> (u8, u8) {
        (self, 255)
    }
}
impl Rec for (usize, u8) {
    fn rec(self) -> (u8, u8) {
        (self.1, self.0 as u8)
    }
}

/// Harness sink: awaits every future inline and records what it produced.
pub struct Sink;

impl<T: Rec, Fut: Future<Output = T>> Consumer<T, Fut> for Sink {
    type Output = ();

    async fn send(self: Pin<&mut Self>, fut: Fut) -> ConsumerState {
        let v = fut.await;
        let l = log();
        assert!(l.nrecv < LMAX, "C15: more items processed than the source has");
        l.recv[l.nrecv] = v.rec();
        l.nrecv += 1;
        ConsumerState::Continue
    }

    async fn progress(self: Pin<&mut Self>) -> ConsumerState {
        ConsumerState::Empty
    }

    async fn flush(self: Pin<&mut Self>) -> Self::Output {
        log().flushed = true;
    }
}

/// Harness sink that keeps up to `BUF` futures in flight and completes them in a solver-chosen
/// order (what `FuturesUnordered` inside the real terminal operations does): `send` parks the
/// future, `flush` polls the parked futures - starting at a solver-chosen slot - until all are
/// done. With it the completion order differs from the source order whenever an earlier item's
/// future pends longer than a later one's.
pub const BUF: usize = 3;
pub struct BufSink<F> {
    slots: [Option<F>; BUF],
}
impl<F> BufSink<F> {
    pub fn new() -> Self {
        BufSink { slots: [None, None, None] }
    }
}

impl<T: Rec, Fut: Future<Output = T>> Consumer<T, Fut> for BufSink<Fut> {
    type Output = ();

    async fn send(self: Pin<&mut Self>, fut: Fut) -> ConsumerState {
        // SAFETY: the slots are structurally pinned; a parked future is never moved again.
        let this = unsafe { self.get_unchecked_mut() };
        let mut i = 0;
        while i < BUF {
            if this.slots[i].is_none() {
                this.slots[i] = Some(fut);
                return ConsumerState::Continue;
            }
            i += 1;
        }
        assert!(false, "C15: more items in flight than the source has");
        ConsumerState::Break
    }

    async fn progress(self: Pin<&mut Self>) -> ConsumerState {
        ConsumerState::Empty
    }

    async fn flush(self: Pin<&mut Self>) -> Self::Output {
        // SAFETY: see `send`.
        let this = unsafe { self.get_unchecked_mut() };
        core::future::poll_fn(|cx| {
            let first = any_u8() as usize;
            assume(first < BUF);
            let mut left = 0;
            let mut k = 0;
            while k < BUF {
                let i = if first + k >= BUF { first + k - BUF } else { first + k };
                let mut finished = false;
                if let Some(f) = this.slots[i].as_mut() {
                    // SAFETY: see `send`.
                    match unsafe { Pin::new_unchecked(f) }.poll(cx) {
                        Poll::Ready(v) => {
                            let l = log();
                            assert!(l.nrecv < LMAX, "C15: more items processed than the source has");
                            l.recv[l.nrecv] = v.rec();
                            l.nrecv += 1;
                            finished = true;
                        }
                        Poll::Pending => left += 1,
                    }
                }
                if finished {
                    this.slots[i] = None;
                }
                k += 1;
            }
            if left == 0 {
                Poll::Ready(())
            } else {
                Poll::Pending
            }
        })
        .await;
        log().flushed = true;
    }
}

/// The map closure: counts its invocations per source position.
#[derive(Clone)]
pub struct Count;
pub struct CountFut(u8, u8);
impl Future for CountFut {
    type Output = u8;
    fn poll(mut self: Pin<&mut Self>, cx: &mut Context<'_>) -> Poll<u8> {
        if self.1 > 0 {
            self.1 -= 1;
            cx.waker().wake_by_ref();
            Poll::Pending
        } else {
            Poll::Ready(self.0)
        }
    }
}
pub fn count_map(x: u8) -> CountFut {
    let l = log();
    l.mapped[x as usize] += 1;
    let p = any_u8();
    assume(p <= unsafe { PENDS_MAX });
    CountFut(x, p)
}
pub fn count_map_idx(x: (usize, u8)) -> CountIdxFut {
    let l = log();
    l.mapped[x.1 as usize] += 1;
    CountIdxFut(x)
}
pub struct CountIdxFut((usize, u8));
impl Future for CountIdxFut {
    type Output = (usize, u8);
    fn poll(self: Pin<&mut Self>, _cx: &mut Context<'_>) -> Poll<(usize, u8)> {
        Poll::Ready(self.0)
    }
}

/// Poll `fut` to completion with the harness waker (every pending item future wakes itself,
/// so a wake-only executor would do exactly this). `max_polls` bounds the run.
fn block_on<F: Future<Output = ()>>(fut: F, max_polls: usize) -> bool {
    let mut fut = core::pin::pin!(fut);
    let mut r = 0;
    while r < max_polls {
        let wk = parent_waker(0);
        let mut cx = Context::from_waker(&wk);
        if fut.as_mut().poll(&mut cx).is_ready() {
            return true;
        }
        r += 1;
    }
    false
}

fn min(a: usize, b: usize) -> usize {
    if a < b {
        a
    } else {
        b
    }
}

/// The sink received exactly the first `expect` source items, in source order; with
/// `enumerated` each carries its zero-based source position as index; with `mapped` the map
/// closure ran exactly once per processed item and never for another one.
fn check(expect: usize, len: usize, enumerated: bool, mapped: bool) {
    let l = log();
    assert!(l.flushed, "C15: consumer was not flushed");
    assert!(
        l.nrecv == expect,
        "C15: take(n) did not process exactly min(n, len) items (none for n = 0)"
    );
    let mut k = 0;
    while k < LMAX {
        if k < expect {
            assert!(l.recv[k].0 as usize == k, "C15: processed items are not the first ones of the source");
            if enumerated {
                assert!(
                    l.recv[k].1 as usize == k,
                    "C15: enumerate index is not the item's position in the source"
                );
            }
        }
        if mapped {
            let want = if k < expect { 1 } else { 0 };
            assert!(
                l.mapped[k] == want,
                "C15: map closure not invoked exactly once per processed item"
            );
        }
        k += 1;
    }
    let _ = len;
}

/// Like `check`, for sinks that complete futures out of order: the set of processed items is
/// exactly the first `expect` source items, each once; `enumerated`: every item carries its own
/// source position as index.
fn check_unordered(expect: usize, enumerated: bool, mapped: bool) {
    let l = log();
    assert!(l.flushed, "C15: consumer was not flushed");
    assert!(
        l.nrecv == expect,
        "C15: take(n) did not process exactly min(n, len) items (none for n = 0)"
    );
    let mut seen = [0u8; LMAX];
    let mut k = 0;
    while k < LMAX {
        if k < l.nrecv {
            let (pos, idx) = l.recv[k];
            assert!((pos as usize) < expect, "C15: processed items are not the first ones of the source");
            seen[pos as usize] += 1;
            if enumerated {
                assert!(idx == pos, "C15: enumerate index is not the item's position in the source");
            }
        }
        k += 1;
    }
    let mut k = 0;
    while k < LMAX {
        if k < expect {
            assert!(seen[k] == 1, "C15: an item was processed twice or not at all");
        }
        if mapped {
            let want = if k < expect { 1 } else { 0 };
            assert!(l.mapped[k] == want, "C15: map closure not invoked exactly once per processed item");
        }
        k += 1;
    }
}

/// Adapter stack in front of the out-of-order sink.
macro_rules! cobufproof {
    ($name:ident, $len:literal, |$n:ident| $stack:expr, expect = $expect:expr, enumerated = $e:expr, mapped = $m:expr) => {
        #[cfg(kani)]
        #[kani::proof]
        #[kani::unwind(7)]
        pub fn $name() {
            reset_log();
            unsafe { PENDS_MAX = 1 };
            let $n = sym_n();
            let done = block_on($stack.drive(BufSink::new()), $len + 3);
            assert!(done, "C15: driver did not finish although every item future completed");
            check_unordered($expect, $e, $m);
            cover!(log().nrecv == 2 && log().recv[0].0 == 1, "second item completed first");
        }
    };
}
cobufproof!(co_enumerate_buf_l2, 2, |n| Src { len: 2 }.enumerate(), expect = 2, enumerated = true, mapped = false);
cobufproof!(co_map_enumerate_buf_l2, 2, |n| Src { len: 2 }.map(count_map).enumerate(), expect = 2, enumerated = true, mapped = true);
cobufproof!(co_enumerate_take_buf_l2, 2, |n| Src { len: 2 }.enumerate().take(n), expect = min(n, 2), enumerated = true, mapped = false);

fn sym_n() -> usize {
    let n = any_u8() as usize;
    assume(n <= 3);
    n
}

/// One harness per (adapter stack, source length): stacks are distinct types, the source
/// length is concrete so that the driver loop has a concrete trip count; `n` is symbolic
/// in 0..=3, the per-item pending counts are symbolic in 0..=1.
macro_rules! coproof {
    ($name:ident, $len:literal, $pends:literal, |$n:ident| $stack:expr, expect = $expect:expr, enumerated = $e:expr, mapped = $m:expr) => {
        #[cfg(kani)]
        #[kani::proof]
        #[kani::unwind(9)]
        pub fn $name() {
            reset_log();
            unsafe { PENDS_MAX = $pends };
            let $n = sym_n();
            const LEN: usize = $len;
            let done = block_on($stack.drive(Sink), 2 * $len + 2);
            assert!(done, "C15: driver did not finish although every item future completed");
            check($expect, LEN, $e, $m);
            cover!($n == 0, "n = 0");
            cover!($n == 1, "n = 1");
            cover!($n >= LEN, "n >= len");
        }
    };
}

macro_rules! stacks_for_len {
    ($len:literal, $take:ident, $enumerate:ident, $map:ident, $enumerate_take:ident, $take_enumerate:ident,
     $map_take:ident, $take_map:ident, $take_take:ident, $limit_map_take:ident, $enumerate_map_take:ident,
     $take_enumerate_map:ident) => {
        coproof!($take, $len, 1, |n| Src { len: $len }.take(n), expect = min(n, $len), enumerated = false, mapped = false);
        coproof!($enumerate, $len, 1, |n| Src { len: $len }.enumerate(), expect = $len, enumerated = true, mapped = false);
        coproof!($map, $len, 1, |n| Src { len: $len }.map(count_map), expect = $len, enumerated = false, mapped = true);
        coproof!($enumerate_take, $len, 0, |n| Src { len: $len }.enumerate().take(n), expect = min(n, $len), enumerated = true, mapped = false);
        coproof!($take_enumerate, $len, 0, |n| Src { len: $len }.take(n).enumerate(), expect = min(n, $len), enumerated = true, mapped = false);
        coproof!($map_take, $len, 0, |n| Src { len: $len }.map(count_map).take(n), expect = min(n, $len), enumerated = false, mapped = true);
        coproof!($take_map, $len, 0, |n| Src { len: $len }.take(n).map(count_map), expect = min(n, $len), enumerated = false, mapped = true);
        coproof!($take_take, $len, 0, |n| Src { len: $len }.take(n).take(1), expect = min(min(n, 1), $len), enumerated = false, mapped = false);
        coproof!($limit_map_take, $len, 0, |n| Src { len: $len }.limit(NonZeroUsize::new(2)).map(count_map).take(n), expect = min(n, $len), enumerated = false, mapped = true);
        coproof!($enumerate_map_take, $len, 0, |n| Src { len: $len }.enumerate().map(count_map_idx).take(n), expect = min(n, $len), enumerated = true, mapped = true);
        coproof!($take_enumerate_map, $len, 0, |n| Src { len: $len }.take(n).enumerate().map(count_map_idx), expect = min(n, $len), enumerated = true, mapped = true);
    };
}

stacks_for_len!(2, co_take_l2, co_enumerate_l2, co_map_l2, co_enumerate_take_l2, co_take_enumerate_l2,
    co_map_take_l2, co_take_map_l2, co_take_take_l2, co_limit_map_take_l2, co_enumerate_map_take_l2,
    co_take_enumerate_map_l2);
stacks_for_len!(3, co_take_l3, co_enumerate_l3, co_map_l3, co_enumerate_take_l3, co_take_enumerate_l3,
    co_map_take_l3, co_take_map_l3, co_take_take_l3, co_limit_map_take_l3, co_enumerate_map_take_l3,
    co_take_enumerate_map_l3);
coproof!(co_take_l0, 0, 1, |n| Src { len: 0 }.take(n), expect = 0, enumerated = false, mapped = false);
coproof!(co_take_l1, 1, 1, |n| Src { len: 1 }.take(n), expect = min(n, 1), enumerated = false, mapped = false);

/// `concurrency_limit()` of a stack is the argument of the outermost `limit`; map, take and
/// enumerate forward it unchanged.
#[cfg(kani)]
#[kani::proof]
#[kani::unwind(4)]
pub fn co_limit_forwarding() {
    let a = any_u8() as usize;
    let b = any_u8() as usize;
    let la = NonZeroUsize::new(a);
    let lb = NonZeroUsize::new(b);
    assert!(Src { len: 1 }.limit(la).concurrency_limit() == la, "C15: limit not reported");
    assert!(Src { len: 1 }.limit(la).take(3).concurrency_limit() == la, "C15: take does not forward the limit");
    assert!(Src { len: 1 }.limit(la).enumerate().concurrency_limit() == la, "C15: enumerate does not forward the limit");
    assert!(Src { len: 1 }.limit(la).map(count_map).concurrency_limit() == la, "C15: map does not forward the limit");
    assert!(Src { len: 1 }.limit(la).limit(lb).concurrency_limit() == lb, "C15: outermost limit does not win");
    assert!(Src { len: 1 }.limit(la).map(count_map).take(2).enumerate().concurrency_limit() == la, "C15: stack does not forward the limit");
    assert!(Src { len: 1 }.take(2).concurrency_limit().is_none(), "C15: limit appears from nowhere");
    cover!(a == 0 && b == 3, "unlimited inner, limited outer");
}

// -------------------------------------------------------------------------------------------
// `FromStream` (`stream.co()`): the real driver between a scripted kit stream and the harness
// sink. C03: the source stream is abandoned after it returned None (asserted inside the
// scripted stream, kit::on_poll); C15: the sink receives exactly the items the stream produced,
// in order.
impl Rec for crate::kit::Tok {
    fn rec(self) -> (u8, u8) {
        (self.seq, self.id)
    }
}

pub fn run_from_stream(cap: usize, polls: usize) {
    use crate::kit::*;
    use futures_concurrency::prelude::*;
    reset(1);
    reset_log();
    w().opts = 1; // a pending source wakes itself (or not: then the driver may legitimately stay pending)
    let mut done = false;
    {
        let fut = Strm::new(0, cap).co().drive(Sink);
        let mut fut = core::pin::pin!(fut);
        assert!(polls <= 6);
        crate::unroll_rounds!(r, polls, {
            if !done {
                let wk = parent_waker(r);
                let mut cx = Context::from_waker(&wk);
                begin_poll(r);
                done = fut.as_mut().poll(&mut cx).is_ready();
                end_poll();
            }
        });
    }
    let l = log();
    if done {
        assert!(w().done[0], "C03/C15: driver finished before the source stream ended");
        assert!(l.flushed, "C15: consumer was not flushed");
        assert!(l.nrecv == w().made[0] as usize, "C15: not every source item was processed exactly once");
    }
    let mut k = 0;
    while k < LMAX {
        if k < l.nrecv {
            assert!(l.recv[k].0 as usize == k && l.recv[k].1 == 0, "C15: items not processed in source order");
        }
        k += 1;
    }
    w().decided = true;
    report();
    cover!(done && l.nrecv == cap, "driver finished with every item processed");
    cover!(!done, "driver still pending");
}

#[cfg(kani)]
#[kani::proof]
#[kani::unwind(6)]
pub fn co_from_stream_k1_p3() {
    run_from_stream(1, 3);
}
#[cfg(kani)]
#[kani::proof]
#[kani::unwind(6)]
pub fn co_from_stream_k0_p2() {
    run_from_stream(0, 2);
}
#[cfg(kani)]
#[kani::proof]
#[kani::unwind(7)]
pub fn co_from_stream_k2_p5() {
    run_from_stream(2, 5);
}
