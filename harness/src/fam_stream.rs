//! Stream combinators: merge (C08, C17), zip (C09), chain (C10), wait_until (C19) — with the
//! generic assertions of C01, C02, C03, C16, C20 carried by the kit. Oracles are transcriptions
//! of the property statements over the script log; no combinator is modelled.

use crate::cover;
use crate::kit::*;
use core::future::Future;
use core::task::{Context, Poll};
use futures_concurrency::prelude::*;
use futures_core::Stream;

#[derive(Clone, Copy, PartialEq, Eq)]
pub enum SFam {
    Merge,
    Zip,
    Chain,
    /// child 0 is the deadline future, child 1 the inner stream
    WaitUntil,
}

pub enum SOut {
    Pending,
    /// one item: (producer, sequence number)
    Item(u8, u8),
    /// a row: per position (producer, sequence number)
    Row([(u8, u8); M], usize),
    End,
}

pub trait StrCase {
    const N: usize;
    const FAM: SFam;
    type S: Stream;
    fn make() -> Self::S;
    fn norm(res: Poll<Option<<Self::S as Stream>::Item>>) -> SOut;
}

pub struct SSummary {
    pub ended: bool,
    pub polls: usize,
    pub rounds: usize,
    pub yielded: usize,
}

pub fn witness(s: &SSummary) {
    cover!(s.yielded >= 1, "yielded at least one item");
    cover!(!s.ended && s.polls == s.rounds, "stream not ended after all rounds");
}

pub fn witness_drop(s: &SSummary) {
    cover!(!s.ended && s.polls > 0 && s.polls < s.rounds, "dropped mid-flight after at least one poll");
    cover!(!s.ended && s.polls == 0, "dropped without ever being polled");
    cover!(s.ended, "dropped after the end");
}

fn all_done_from(first: usize) -> bool {
    let w = w();
    let mut i = first;
    while i < w.n {
        if !w.done[i] {
            return false;
        }
        i += 1;
    }
    true
}

fn any_done_from(first: usize) -> bool {
    let w = w();
    let mut i = first;
    while i < w.n {
        if w.done[i] {
            return true;
        }
        i += 1;
    }
    false
}

struct St {
    yielded: [u8; M],
    rows: u8,
    total: usize,
    /// C17: index of the always-ready input (or M) and consecutive yields not from it
    favoured: usize,
    since: usize,
}

fn outstanding(st: &St) -> bool {
    let w = w();
    let mut i = 0;
    while i < w.n {
        if w.made[i] != st.yielded[i] {
            return true;
        }
        i += 1;
    }
    false
}

fn judge(fam: SFam, out: SOut, n: usize, st: &mut St) -> bool {
    let w = w();
    match fam {
        SFam::Merge | SFam::Chain | SFam::WaitUntil => {
            let (tag_order, first): (&str, usize) = match fam {
                SFam::Merge => ("C08", 0),
                SFam::Chain => ("C10", 0),
                _ => ("C19", 1),
            };
            let _ = tag_order;
            match out {
                SOut::Pending => {
                    assert!(
                        w.items_this_poll == 0,
                        "C08/C10/C19: returned Pending in a poll in which an input produced an item"
                    );
                    assert!(!outstanding(st), "C08/C10/C19: an item was produced but never yielded");
                    assert!(
                        !all_done_from(first),
                        "C08/C10/C19: still pending after every input has ended"
                    );
                    false
                }
                SOut::Item(id, seq) => {
                    let id = id as usize;
                    assert!(id >= first && id < n, "C08/C10/C19: yielded an item no input produced");
                    assert!(
                        seq == st.yielded[id],
                        "C08/C10/C19: item yielded twice, skipped or out of its input's order"
                    );
                    st.yielded[id] += 1;
                    st.total += 1;
                    if fam == SFam::Chain {
                        let mut j = 0;
                        while j < id {
                            assert!(
                                w.done[j] && st.yielded[j] == w.made[j],
                                "C10: item of a later input yielded before an earlier input was exhausted"
                            );
                            j += 1;
                        }
                    }
                    if st.favoured < M {
                        if id == st.favoured {
                            st.since = 0;
                        } else {
                            st.since += 1;
                            assert!(
                                st.since < n,
                                "C17: N consecutive items yielded, none from the input that always has one"
                            );
                        }
                    }
                    false
                }
                SOut::End => {
                    assert!(
                        all_done_from(first),
                        "C08/C10/C19: stream ended although an input has not ended"
                    );
                    assert!(!outstanding(st), "C08/C10/C19: stream ended with an item never yielded");
                    true
                }
                SOut::Row(..) => {
                    assert!(false, "impossible result");
                    true
                }
            }
        }
        SFam::Zip => match out {
            SOut::Pending => {
                assert!(!any_done_from(0), "C09: zip still pending in the poll in which an input ended");
                false
            }
            SOut::Row(cells, len) => {
                assert!(!any_done_from(0), "C09: zip yielded a row in the poll in which an input ended");
                assert!(len == n, "C09: row has the wrong width");
                let mut p = 0;
                while p < n {
                    assert!(
                        cells[p].0 as usize == p && cells[p].1 == st.rows,
                        "C09: k-th row does not hold the k-th item of every input at its position"
                    );
                    w.rearmed[p] = true;
                    p += 1;
                }
                st.rows += 1;
                st.total += 1;
                false
            }
            SOut::End => {
                assert!(any_done_from(0), "C09: zip ended although no input has ended");
                true
            }
            SOut::Item(..) => {
                assert!(false, "impossible result");
                true
            }
        },
    }
}

fn zip_limits(st: &St) {
    let w = w();
    let mut i = 0;
    while i < w.n {
        assert!(
            w.made[i] <= st.rows + 1,
            "C09: zip took more than one item beyond the rows yielded from an input"
        );
        i += 1;
    }
}

/// Round runner for streams. One `poll_next` per round with a fresh parent waker; fire phase
/// between polls. `favoured < M` selects the always-ready input of a C17 harness.
pub fn run_stream<C: StrCase>(rounds: usize, sym_drop: bool, favoured: usize) -> SSummary {
    reset(C::N);
    {
        let w = w();
        let tracks = matches!(C::FAM, SFam::Merge | SFam::Zip);
        w.c16 = cfg!(feature = "std") && tracks;
        w.sequential = matches!(C::FAM, SFam::Chain | SFam::WaitUntil);
        w.seq_is_chain = C::FAM == SFam::Chain;
        if favoured < M {
            w.always[favoured] = true;
        }
    }
    let mut st = St { yielded: [0; M], rows: 0, total: 0, favoured, since: 0 };
    let mut slot = core::mem::ManuallyDrop::new(C::make());
    let sum;
    {
        // SAFETY: `slot` is not moved again; it is dropped in place (or leaked) by `finish`.
        let mut s = unsafe { core::pin::Pin::new_unchecked(&mut *slot) };
        let stop: usize = if sym_drop {
            let x = any_u8() as usize;
            assume(x <= rounds);
            x
        } else {
            rounds
        };
        let mut ended = false;
        let mut r = 0;
        while r < rounds {
            if r == stop {
                break;
            }
            let wk = parent_waker(r);
            let mut cx = Context::from_waker(&wk);
            let before = snapshot_woken();
            let done0_before = w().done[0];
            begin_poll(r);
            let res = s.as_mut().poll_next(&mut cx);
            end_poll();
            let was_pending = res.is_pending();
            ended = judge(C::FAM, C::norm(res), C::N, &mut st);
            if C::FAM == SFam::Zip {
                zip_limits(&st);
            }
            if C::FAM == SFam::WaitUntil && !done0_before && w().done[0] {
                assert!(
                    w().polled_this_round[1],
                    "C19: inner stream not polled in the poll in which the deadline resolved"
                );
            }
            if ended {
                w().decided = true;
                r += 1;
                break;
            }
            if was_pending {
                let rows = st.rows;
                let fam = C::FAM;
                // relevant children for the lost-wake invariant
                let relevant = move |i: usize| -> bool {
                    let w = crate::kit::w();
                    match fam {
                        SFam::Merge => true,
                        // an input whose item for the current row is buffered is held back
                        SFam::Zip => w.made[i] <= rows,
                        // only the current input is being evaluated
                        SFam::Chain | SFam::WaitUntil => {
                            let mut j = 0;
                            while j < i {
                                if !w.done[j] {
                                    return false;
                                }
                                j += 1;
                            }
                            true
                        }
                    }
                };
                if matches!(fam, SFam::Merge | SFam::Zip) {
                    assert_all_started();
                }
                assert_woken_were_polled(before, relevant);
                assert_no_lost_wake(r, relevant);
                fire_phase();
                assert_no_lost_wake(r, relevant);
            } else {
                // an item was yielded: the consumer asks again; wakes may still arrive first
                fire_phase();
            }
            r += 1;
        }
        fire_phase();
        sum = SSummary { ended, polls: r, rounds, yielded: st.total };
    }
    finish(&mut slot);
    sum
}

// ------------------------------------------------------------------------------------------
// wait_until on futures (C19): child 0 = deadline, child 1 = inner future

pub fn run_wait_until_future(rounds: usize) -> SSummary {
    reset(2);
    w().sequential = true;
    let mut slot = core::mem::ManuallyDrop::new(Fut::new(1).wait_until(Fut::new(0)));
    let sum;
    {
        let mut f = unsafe { core::pin::Pin::new_unchecked(&mut *slot) };
        let mut ended = false;
        let mut r = 0;
        while r < rounds {
            let wk = parent_waker(r);
            let mut cx = Context::from_waker(&wk);
            let done0_before = w().done[0];
            begin_poll(r);
            let res = f.as_mut().poll(&mut cx);
            end_poll();
            if !done0_before && w().done[0] {
                assert!(
                    w().polled_this_round[1],
                    "C19: inner future not polled in the poll in which the deadline resolved"
                );
            }
            match res {
                Poll::Ready(v) => {
                    assert!(v.id == 1 && w().done[1], "C19: output is not the inner future's output");
                    ended = true;
                }
                Poll::Pending => {
                    assert!(!w().done[1], "C19: still pending although the inner future resolved");
                    let relevant = |i: usize| i == 0 || crate::kit::w().done[0];
                    assert_no_lost_wake(r, relevant);
                    fire_phase();
                    assert_no_lost_wake(r, relevant);
                }
            }
            r += 1;
            if ended {
                w().decided = true;
                break;
            }
        }
        fire_phase();
        sum = SSummary { ended, polls: r, rounds, yielded: 0 };
    }
    finish(&mut slot);
    sum
}

// ------------------------------------------------------------------------------------------
// normalisation

fn item1(res: Poll<Option<Tok>>) -> SOut {
    match res {
        Poll::Pending => SOut::Pending,
        Poll::Ready(None) => SOut::End,
        Poll::Ready(Some(t)) => SOut::Item(t.id, t.seq),
    }
}

fn row_of_slice(v: &[Tok]) -> SOut {
    let mut cells = [(255u8, 255u8); M];
    let mut i = 0;
    while i < v.len() && i < M {
        cells[i] = (v[i].id, v[i].seq);
        i += 1;
    }
    SOut::Row(cells, v.len())
}

/// items per scripted stream
pub const CAP: usize = 2;

// arrays -----------------------------------------------------------------------------------

pub struct ArrMerge<const N: usize, const K: usize>;
impl<const N: usize, const K: usize> StrCase for ArrMerge<N, K> {
    const N: usize = N;
    const FAM: SFam = SFam::Merge;
    type S = <[Strm; N] as futures_concurrency::stream::Merge>::Stream;
    fn make() -> Self::S {
        core::array::from_fn::<Strm, N, _>(|i| Strm::new(i, K)).merge()
    }
    fn norm(res: Poll<Option<Tok>>) -> SOut {
        item1(res)
    }
}

pub struct ArrChain<const N: usize, const K: usize>;
impl<const N: usize, const K: usize> StrCase for ArrChain<N, K> {
    const N: usize = N;
    const FAM: SFam = SFam::Chain;
    type S = <[Strm; N] as futures_concurrency::stream::Chain>::Stream;
    fn make() -> Self::S {
        core::array::from_fn::<Strm, N, _>(|i| Strm::new(i, K)).chain()
    }
    fn norm(res: Poll<Option<Tok>>) -> SOut {
        item1(res)
    }
}

pub struct ArrZip<const N: usize, const K: usize>;
impl<const N: usize, const K: usize> StrCase for ArrZip<N, K> {
    const N: usize = N;
    const FAM: SFam = SFam::Zip;
    type S = <[Strm; N] as futures_concurrency::stream::Zip>::Stream;
    fn make() -> Self::S {
        core::array::from_fn::<Strm, N, _>(|i| Strm::new(i, K)).zip()
    }
    fn norm(res: Poll<Option<[Tok; N]>>) -> SOut {
        match res {
            Poll::Pending => SOut::Pending,
            Poll::Ready(None) => SOut::End,
            Poll::Ready(Some(row)) => row_of_slice(&row),
        }
    }
}

// tuples -----------------------------------------------------------------------------------

macro_rules! tuple_stream_cases {
    ($n:literal, $merge:ident, $chain:ident, $zip:ident, ($($i:tt),+)) => {
        pub struct $merge<const K: usize>;
        impl<const K: usize> StrCase for $merge<K> {
            const N: usize = $n;
            const FAM: SFam = SFam::Merge;
            type S = <($(tuple_stream_cases!(@ty Strm $i),)+) as futures_concurrency::stream::Merge>::Stream;
            fn make() -> Self::S {
                ($(Strm::new($i, K),)+).merge()
            }
            fn norm(res: Poll<Option<Tok>>) -> SOut {
                item1(res)
            }
        }
        pub struct $chain<const K: usize>;
        impl<const K: usize> StrCase for $chain<K> {
            const N: usize = $n;
            const FAM: SFam = SFam::Chain;
            type S = <($(tuple_stream_cases!(@ty Strm $i),)+) as futures_concurrency::stream::Chain>::Stream;
            fn make() -> Self::S {
                ($(Strm::new($i, K),)+).chain()
            }
            fn norm(res: Poll<Option<Tok>>) -> SOut {
                item1(res)
            }
        }
        pub struct $zip<const K: usize>;
        impl<const K: usize> StrCase for $zip<K> {
            const N: usize = $n;
            const FAM: SFam = SFam::Zip;
            type S = <($(tuple_stream_cases!(@ty Strm $i),)+) as futures_concurrency::stream::Zip>::Stream;
            fn make() -> Self::S {
                ($(Strm::new($i, K),)+).zip()
            }
            fn norm(res: Poll<Option<($(tuple_stream_cases!(@ty Tok $i),)+)>>) -> SOut {
                match res {
                    Poll::Pending => SOut::Pending,
                    Poll::Ready(None) => SOut::End,
                    Poll::Ready(Some(row)) => {
                        let mut cells = [(255u8, 255u8); M];
                        $(cells[$i] = (row.$i.id, row.$i.seq);)+
                        SOut::Row(cells, $n)
                    }
                }
            }
        }
    };
    (@ty $t:ident $i:tt) => { $t };
}

tuple_stream_cases!(1, Tup1Merge, Tup1Chain, Tup1Zip, (0));
tuple_stream_cases!(2, Tup2Merge, Tup2Chain, Tup2Zip, (0, 1));
tuple_stream_cases!(3, Tup3Merge, Tup3Chain, Tup3Zip, (0, 1, 2));

/// merge of zero streams (tuple)
pub struct Tup0Merge;
impl StrCase for Tup0Merge {
    const N: usize = 0;
    const FAM: SFam = SFam::Merge;
    type S = <() as futures_concurrency::stream::Merge>::Stream;
    fn make() -> Self::S {
        ().merge()
    }
    fn norm(res: Poll<Option<core::convert::Infallible>>) -> SOut {
        match res {
            Poll::Pending => SOut::Pending,
            Poll::Ready(None) => SOut::End,
            Poll::Ready(Some(_)) => SOut::Item(255, 255),
        }
    }
}

// StreamExt two-stream forms ----------------------------------------------------------------

pub struct ExtMerge<const K: usize>;
impl<const K: usize> StrCase for ExtMerge<K> {
    const N: usize = 2;
    const FAM: SFam = SFam::Merge;
    type S = <(Strm, Strm) as futures_concurrency::stream::Merge>::Stream;
    fn make() -> Self::S {
        futures_concurrency::stream::StreamExt::merge(Strm::new(0, K), Strm::new(1, K))
    }
    fn norm(res: Poll<Option<Tok>>) -> SOut {
        item1(res)
    }
}

pub struct ExtChain<const K: usize>;
impl<const K: usize> StrCase for ExtChain<K> {
    const N: usize = 2;
    const FAM: SFam = SFam::Chain;
    type S = <(Strm, Strm) as futures_concurrency::stream::Chain>::Stream;
    fn make() -> Self::S {
        futures_concurrency::stream::StreamExt::chain(Strm::new(0, K), Strm::new(1, K))
    }
    fn norm(res: Poll<Option<Tok>>) -> SOut {
        item1(res)
    }
}

pub struct ExtZip<const K: usize>;
impl<const K: usize> StrCase for ExtZip<K> {
    const N: usize = 2;
    const FAM: SFam = SFam::Zip;
    type S = <(Strm, Strm) as futures_concurrency::stream::Zip>::Stream;
    fn make() -> Self::S {
        futures_concurrency::stream::StreamExt::zip(Strm::new(0, K), Strm::new(1, K))
    }
    fn norm(res: Poll<Option<(Tok, Tok)>>) -> SOut {
        Tup2Zip::<K>::norm(res)
    }
}

// wait_until on streams ----------------------------------------------------------------------

pub struct WaitUntilStream<const K: usize>;
impl<const K: usize> StrCase for WaitUntilStream<K> {
    const N: usize = 2;
    const FAM: SFam = SFam::WaitUntil;
    type S = futures_concurrency::stream::WaitUntil<Strm, Fut>;
    fn make() -> Self::S {
        futures_concurrency::stream::StreamExt::wait_until(Strm::new(1, K), Fut::new(0))
    }
    fn norm(res: Poll<Option<Tok>>) -> SOut {
        item1(res)
    }
}

// Vec ------------------------------------------------------------------------------------------

#[cfg(feature = "alloc")]
mod vec_cases {
    use super::*;
    use alloc::vec::Vec;

    fn strms(n: usize, k: usize) -> Vec<Strm> {
        let mut v = Vec::with_capacity(n);
        let mut i = 0;
        while i < n {
            v.push(Strm::new(i, k));
            i += 1;
        }
        v
    }

    pub struct VecMerge<const N: usize, const K: usize>;
    impl<const N: usize, const K: usize> StrCase for VecMerge<N, K> {
        const N: usize = N;
        const FAM: SFam = SFam::Merge;
        type S = <Vec<Strm> as futures_concurrency::stream::Merge>::Stream;
        fn make() -> Self::S {
            strms(N, K).merge()
        }
        fn norm(res: Poll<Option<Tok>>) -> SOut {
            item1(res)
        }
    }

    pub struct VecChain<const N: usize, const K: usize>;
    impl<const N: usize, const K: usize> StrCase for VecChain<N, K> {
        const N: usize = N;
        const FAM: SFam = SFam::Chain;
        type S = <Vec<Strm> as futures_concurrency::stream::Chain>::Stream;
        fn make() -> Self::S {
            strms(N, K).chain()
        }
        fn norm(res: Poll<Option<Tok>>) -> SOut {
            item1(res)
        }
    }

    pub struct VecZip<const N: usize, const K: usize>;
    impl<const N: usize, const K: usize> StrCase for VecZip<N, K> {
        const N: usize = N;
        const FAM: SFam = SFam::Zip;
        type S = <Vec<Strm> as futures_concurrency::stream::Zip>::Stream;
        fn make() -> Self::S {
            strms(N, K).zip()
        }
        fn norm(res: Poll<Option<Vec<Tok>>>) -> SOut {
            match res {
                Poll::Pending => SOut::Pending,
                Poll::Ready(None) => SOut::End,
                Poll::Ready(Some(row)) => row_of_slice(&row),
            }
        }
    }
}
#[cfg(feature = "alloc")]
pub use vec_cases::*;

// ------------------------------------------------------------------------------------------
// proofs. Naming: <family>_<container><n>_k<items>_r<rounds>[_drop]

macro_rules! sproof {
    ($name:ident, $unwind:literal, $case:ty, $rounds:literal) => {
        crate::proof!($name, $unwind, {
            let s = run_stream::<$case>($rounds, false, M);
            witness(&s);
        });
    };
    ($name:ident, $unwind:literal, $case:ty, $rounds:literal, drop) => {
        crate::proof!($name, $unwind, {
            let s = run_stream::<$case>($rounds, true, M);
            witness_drop(&s);
        });
    };
    ($name:ident, $unwind:literal, $case:ty, $rounds:literal, empty) => {
        crate::proof!($name, $unwind, {
            let s = run_stream::<$case>($rounds, false, M);
            cover!(s.ended && s.polls == 1, "ended on the first poll");
        });
    };
}

sproof!(merge_arr2_k1_r3, 7, ArrMerge<2, 1>, 3);
sproof!(merge_tup2_k1_r3, 7, Tup2Merge<1>, 3);
sproof!(zip_arr2_k1_r3, 7, ArrZip<2, 1>, 3);
sproof!(zip_tup2_k1_r3, 7, Tup2Zip<1>, 3);
sproof!(merge_arr2_k2_r5, 7, ArrMerge<2, 2>, 5);
sproof!(merge_tup2_k2_r5, 7, Tup2Merge<2>, 5);
sproof!(merge_ext2_k2_r5, 7, ExtMerge<2>, 5);
sproof!(merge_arr2_k2_r4_drop, 7, ArrMerge<2, 2>, 4, drop);
sproof!(merge_tup2_k2_r4_drop, 7, Tup2Merge<2>, 4, drop);
sproof!(merge_arr3_k1_r6, 8, ArrMerge<3, 1>, 6);
sproof!(merge_tup3_k1_r6, 8, Tup3Merge<1>, 6);
sproof!(merge_tup1_k2_r4, 7, Tup1Merge<2>, 4);
sproof!(merge_arr0_r1, 7, ArrMerge<0, 1>, 1, empty);
sproof!(merge_tup0_r1, 7, Tup0Merge, 1, empty);

sproof!(zip_arr2_k2_r5, 7, ArrZip<2, 2>, 5);
sproof!(zip_tup2_k2_r5, 7, Tup2Zip<2>, 5);
sproof!(zip_arr2_k2_r4_drop, 7, ArrZip<2, 2>, 4, drop);
sproof!(zip_tup2_k2_r4_drop, 7, Tup2Zip<2>, 4, drop);
sproof!(zip_arr3_k1_r5, 7, ArrZip<3, 1>, 5);
sproof!(zip_tup3_k1_r5, 7, Tup3Zip<1>, 5);
sproof!(zip_tup1_k2_r4, 7, Tup1Zip<2>, 4);

sproof!(chain_arr2_k1_r4, 7, ArrChain<2, 1>, 4);
sproof!(chain_tup2_k1_r4, 7, Tup2Chain<1>, 4);
sproof!(chain_ext2_k1_r4, 7, ExtChain<1>, 4);
sproof!(zip_ext2_k2_r5, 7, ExtZip<2>, 5);
sproof!(chain_arr3_k1_r3, 7, ArrChain<3, 1>, 3);
sproof!(chain_tup3_k1_r3, 7, Tup3Chain<1>, 3);
sproof!(zip_arr3_k1_r3, 7, ArrZip<3, 1>, 3);
sproof!(zip_tup3_k1_r3, 7, Tup3Zip<1>, 3);
sproof!(merge_arr3_k1_r4, 7, ArrMerge<3, 1>, 4);
sproof!(merge_tup3_k1_r4, 7, Tup3Merge<1>, 4);
sproof!(chain_arr2_k2_r6, 8, ArrChain<2, 2>, 6);
sproof!(chain_tup2_k2_r6, 8, Tup2Chain<2>, 6);
sproof!(chain_arr2_k2_r4_drop, 7, ArrChain<2, 2>, 4, drop);
sproof!(chain_arr3_k1_r6, 8, ArrChain<3, 1>, 6);
sproof!(chain_tup3_k1_r6, 8, Tup3Chain<1>, 6);
sproof!(chain_arr0_r1, 7, ArrChain<0, 1>, 1, empty);

sproof!(waituntil_stream_k2_r6, 8, WaitUntilStream<2>, 6);
crate::proof!(waituntil_future_r5, 7, {
    let s = run_wait_until_future(5);
    cover!(s.ended && s.polls == 5, "resolved in the last allowed poll");
    cover!(!s.ended, "still pending after all rounds");
});

// C17: one input always has an item; window of N consecutive yields
macro_rules! fair_proof {
    ($name:ident, $unwind:literal, $case:ty, $rounds:literal, $n:literal) => {
        crate::proof!($name, $unwind, {
            let p = any_u8() as usize;
            assume(p < $n);
            let s = run_stream::<$case>($rounds, false, p);
            cover!(s.yielded >= $n + 1, "more than N items yielded");
        });
    };
}
fair_proof!(fair_merge_arr2_r5, 7, ArrMerge<2, 6>, 5, 2);
fair_proof!(fair_merge_tup2_r5, 7, Tup2Merge<6>, 5, 2);
fair_proof!(fair_merge_arr3_r7, 9, ArrMerge<3, 7>, 7, 3);
fair_proof!(fair_merge_tup3_r7, 9, Tup3Merge<7>, 7, 3);

#[cfg(feature = "alloc")]
mod vec_proofs {
    use super::*;
    sproof!(merge_vec2_k2_r5, 7, VecMerge<2, 2>, 5);
    sproof!(merge_vec2_k2_r4_drop, 7, VecMerge<2, 2>, 4, drop);
    sproof!(merge_vec0_r1, 7, VecMerge<0, 1>, 1, empty);
    sproof!(zip_vec2_k2_r5, 7, VecZip<2, 2>, 5);
    sproof!(zip_vec2_k2_r4_drop, 7, VecZip<2, 2>, 4, drop);
    sproof!(chain_vec2_k2_r6, 8, VecChain<2, 2>, 6);
    sproof!(chain_vec2_k1_r4, 7, VecChain<2, 1>, 4);
    sproof!(chain_vec3_k1_r3, 7, VecChain<3, 1>, 3);
    sproof!(merge_vec3_k1_r3, 7, VecMerge<3, 1>, 3);
    sproof!(zip_vec2_k1_r3, 7, VecZip<2, 1>, 3);
    sproof!(chain_vec0_r1, 7, VecChain<0, 1>, 1, empty);
    fair_proof!(fair_merge_vec2_r5, 7, VecMerge<2, 6>, 5, 2);
    fair_proof!(fair_merge_vec3_r7, 9, VecMerge<3, 7>, 7, 3);
}
