//! Unit proofs over single real source files of /repo, compiled into this crate through
//! `#[path]` so that `pub(crate)` items can be driven directly (no hook in /repo needed):
//! `utils/indexer.rs` (C17, C06) and `utils/wakers/{array,vec}` (C01, C16).
#![allow(dead_code)]
#![allow(unused_imports)]

use crate::cover;
use crate::kit::*;

#[path = "/repo/src/utils/indexer.rs"]
mod indexer;

crate::proof!(indexer_rotation, 19, {
    let max = any_u8() as usize;
    assume(max >= 1 && max <= 16);
    // any reachable offset: `k` earlier calls of iter()
    let k = any_u8() as usize;
    assume(k <= 17);
    let mut ix = indexer::Indexer::new(max);
    let mut c = 0;
    while c < k {
        let _ = ix.iter();
        c += 1;
    }
    let mut it = ix.iter();
    let mut j = 0;
    while j < max {
        let got = it.next();
        assert!(
            got == Some((k + j) % max),
            "C17: Indexer::iter is not the rotation starting one past the previous start"
        );
        j += 1;
    }
    assert!(it.next().is_none(), "C17: Indexer::iter yields more than max indexes");
    cover!(max == 16 && k == 17, "largest case");
    cover!(max == 1, "single input");
});

#[cfg(feature = "std")]
mod std_wakers {
    use super::*;
    use core::task::Waker;

    #[path = "/repo/src/utils/wakers/array/mod.rs"]
    mod warr;
    #[path = "/repo/src/utils/wakers/vec/mod.rs"]
    mod wvec;

    /// Reference readiness bits (the specification of what the readiness set must do).
    struct Bits<const N: usize> {
        ready: [bool; N],
        parent: Option<usize>,
    }

    fn total_pwakes() -> u32 {
        let w = w();
        let mut t = 0u32;
        let mut i = 0;
        while i < RMAX {
            t += w.pwakes[i] as u32;
            i += 1;
        }
        t
    }

    macro_rules! wake_step {
        ($get:expr, $bits:ident, $i:expr, $by_value:expr) => {{
            let i = $i;
            let p = $bits.parent.unwrap();
            let before_p = w().pwakes[p];
            let before_all = total_pwakes();
            let was = $bits.ready[i];
            let wk: &Waker = $get;
            if $by_value {
                wk.clone().wake();
            } else {
                wk.wake_by_ref();
            }
            $bits.ready[i] = true;
            if was {
                assert!(total_pwakes() == before_all, "C16: wake of an already ready child woke the task again");
            } else {
                assert!(
                    w().pwakes[p] == before_p + 1 && total_pwakes() == before_all + 1,
                    "C01: sub-waker did not wake exactly the most recently set parent waker"
                );
            }
        }};
    }

    /// K solver-chosen operations on the real `WakerArray<2>`.
    fn waker_array_ops(k: usize) {
        reset(2);
        let mut wa = warr::WakerArray::<2>::new();
        let mut bits = Bits::<2> { ready: [true; 2], parent: None };
        let mut wakes = 0;
        let mut s = 0;
        while s < k {
            let op = any_u8();
            assume(op < 6);
            let i = if any_bool() { 1usize } else { 0usize };
            if op == 0 || bits.parent.is_none() {
                // a poll starts: the combinator installs the task's current waker
                let pw = parent_waker(s);
                wa.readiness().set_waker(&pw);
                bits.parent = Some(s);
            } else if op == 1 {
                let r = wa.readiness().clear_ready(i);
                assert!(r == bits.ready[i], "C01/C16: clear_ready reports a wrong previous state");
                bits.ready[i] = false;
            } else if op == 2 {
                if i == 0 {
                    wake_step!(wa.get(0).unwrap(), bits, 0, false);
                } else {
                    wake_step!(wa.get(1).unwrap(), bits, 1, false);
                }
                wakes += 1;
            } else if op == 3 {
                if i == 0 {
                    wake_step!(wa.get(0).unwrap(), bits, 0, true);
                } else {
                    wake_step!(wa.get(1).unwrap(), bits, 1, true);
                }
                wakes += 1;
            } else if op == 4 {
                wa.readiness().set_all_ready();
                bits.ready = [true; 2];
            } else {
                let r = wa.readiness().set_ready(i);
                assert!(r == bits.ready[i], "C01: set_ready reports a wrong previous state");
                bits.ready[i] = true;
            }
            let any = wa.readiness().any_ready();
            assert!(
                any == (bits.ready[0] || bits.ready[1]),
                "C01/C16: any_ready disagrees with the readiness bits (count out of step)"
            );
            s += 1;
        }
        cover!(wakes >= 2 && !bits.ready[0], "two wakes and a cleared bit");
        core::mem::forget(wa);
    }

    crate::proof!(waker_array_k5, 9, { waker_array_ops(5) });
    crate::proof!(waker_array_k7, 9, { waker_array_ops(7) });

    /// K solver-chosen operations on the real `WakerVec`, including growth as `FutureGroup::insert` does.
    fn waker_vec_ops(k: usize) {
        reset(2);
        let mut wv = wvec::WakerVec::new(1);
        // model: up to 3 slots
        let mut ready = [true, false, false];
        let mut len = 1usize;
        let mut parent: Option<usize> = None;
        let mut grown = false;
        let mut s = 0;
        while s < k {
            let op = any_u8();
            assume(op < 5);
            let i = any_u8() as usize;
            assume(i < len);
            if op == 0 || parent.is_none() {
                let pw = parent_waker(s);
                wv.readiness().set_waker(&pw);
                parent = Some(s);
            } else if op == 1 {
                let r = wv.readiness().clear_ready(i);
                assert!(r == ready[i], "C01/C16: clear_ready reports a wrong previous state");
                ready[i] = false;
            } else if op == 2 {
                let p = parent.unwrap();
                let before_p = w().pwakes[p];
                let before_all = total_pwakes();
                let was = ready[i];
                match i {
                    0 => wv.get(0).unwrap().wake_by_ref(),
                    1 => wv.get(1).unwrap().wake_by_ref(),
                    _ => wv.get(2).unwrap().wake_by_ref(),
                }
                ready[i] = true;
                if was {
                    assert!(total_pwakes() == before_all, "C16: wake of an already ready slot woke the task again");
                } else {
                    assert!(
                        w().pwakes[p] == before_p + 1 && total_pwakes() == before_all + 1,
                        "C01: sub-waker did not wake exactly the most recently set parent waker"
                    );
                }
            } else if op == 3 {
                if len < 3 {
                    // new slots are armed
                    let new_len = 3;
                    wv.resize(new_len);
                    let mut j = len;
                    while j < new_len {
                        ready[j] = true;
                        j += 1;
                    }
                    len = new_len;
                    grown = true;
                }
            } else {
                let r = wv.readiness().set_ready(i);
                assert!(r == ready[i], "C01: set_ready reports a wrong previous state");
                ready[i] = true;
            }
            let any = wv.readiness().any_ready();
            let mut want = false;
            let mut j = 0;
            while j < len {
                want = want || ready[j];
                j += 1;
            }
            assert!(any == want, "C01/C16: any_ready disagrees with the readiness bits (count out of step)");
            s += 1;
        }
        cover!(grown && !ready[0], "grown with a cleared bit");
        core::mem::forget(wv);
    }

    crate::proof!(waker_vec_k5, 9, { waker_vec_ops(5) });
    crate::proof!(waker_vec_k3, 9, { waker_vec_ops(3) });
}
