//! Kani harnesses over the real `futures-concurrency` crate (path dependency on /repo).
#![allow(clippy::all)]
#![allow(unused_imports)]
#![cfg_attr(kani, feature(allocator_api))]

#[cfg(feature = "alloc")]
extern crate alloc;

/// Declares a Kani proof harness with the stub set of the active configuration
/// (DESIGN.md section 2.5 lists every stub and what it assumes).
#[macro_export]
macro_rules! proof {
    ($name:ident, $unwind:literal, $body:block) => {
        #[cfg(kani)]
        #[kani::proof]
        #[kani::unwind($unwind)]
        #[kani::stub(core::array::from_fn, $crate::stubs::from_fn_stub)]
        #[cfg_attr(feature = "std", kani::stub(std::sync::Mutex::lock, $crate::stubs::lock_stub))]
        #[cfg_attr(
            feature = "std",
            kani::stub(core::task::Waker::wake_by_ref, $crate::stubs::wake_by_ref_stub)
        )]
        #[cfg_attr(
            feature = "std",
            kani::stub(alloc::sync::Arc::drop_slow, $crate::stubs::drop_slow_stub)
        )]
        pub fn $name() $body
    };
}

pub mod kit;
pub mod stubs;

pub mod unit;
pub mod fam_fut;
pub mod fam_stream;
#[cfg(feature = "alloc")]
pub mod fam_costream;
#[cfg(feature = "alloc")]
pub mod fam_group;
