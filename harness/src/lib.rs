//! Kani harnesses over the real `futures-concurrency` crate (path dependency on /repo).
#![allow(clippy::all)]
#![allow(unused_imports)]
#![cfg_attr(kani, feature(allocator_api))]

#[cfg(feature = "alloc")]
extern crate alloc;

#[macro_use]
pub mod stubs;
pub mod kit;

pub mod unit;
pub mod wide;
pub mod fam_fut;
pub mod fam_stream;
pub mod nest;
#[cfg(feature = "alloc")]
pub mod fam_costream;
#[cfg(feature = "alloc")]
pub mod fam_group;
