//! Harness kit: scripted children, observable world, parent wakers, fire phase.
//!
//! Everything a child does is drawn from `kani::any()`; everything it does is logged in the
//! global `World`, and the oracles of the property harnesses are written against that log.
//! Nothing in here models any combinator.

#![allow(static_mut_refs)]
#![allow(dead_code)]

use core::future::Future;
use core::pin::Pin;
use core::task::{Context, Poll, RawWaker, RawWakerVTable, Waker};
use futures_core::Stream;

/// Maximum number of children in any harness.
pub const M: usize = 4;
/// Maximum number of rounds (parent polls) in any harness.
pub const RMAX: usize = 8;
/// Maximum number of items of a scripted stream.
pub const KMAX: usize = 8;

/// Handle kinds. The waker most recently handed to a child is remembered as
/// * `H_PARENT` + round: it *is* the harness parent waker of that round (pass-through
///   combinators and the no_std / alloc configurations), or
/// * `H_SUB` + borrowed pointer: a sub-waker owned by the combinator (std configuration);
///   borrowed, never cloned, so that no reference count becomes path dependent.
/// Kind, round and pointer live in separate arrays (a Rust enum would overlay the pointer
/// with the integer and cost CBMC its pointer precision).
pub const H_NONE: u8 = 0;
pub const H_PARENT: u8 = 1;
pub const H_SUB: u8 = 2;

pub struct World {
    pub n: usize,
    pub in_poll: bool,
    pub round: u8,
    /// The combinator has produced its final result / short-circuited: no child poll allowed.
    pub decided: bool,
    /// Global event counter (orders child polls).
    pub clock: u8,
    /// child whose result decided the combinator (valid when `decided` was set by a child)
    pub decider: u8,

    pub polls: [u8; M],
    pub done: [bool; M],
    pub last_poll_round: [u8; M],
    pub polled_this_round: [bool; M],
    /// Most recent waker of child i was invoked after child i's most recent poll began.
    pub woken: [bool; M],
    /// Any waker ever handed to child i was invoked since its most recent poll began (C16).
    pub fired_any: [bool; M],
    /// Last poll result of child i was an item (streams are legitimately re-polled then).
    pub last_item: [bool; M],
    pub hkind: [u8; M],
    pub hround: [u8; M],
    pub hptr: [*const Waker; M],
    /// Child i must never be polled (used by chain / wait_until oracles).
    pub forbidden: [bool; M],
    /// C16 assertion enabled (std configuration, readiness-tracking combinators only).
    pub c16: bool,
    /// scripted outcome of child i's first polls, consumed left to right, 2 bits per poll:
    /// 0 = solver's choice, 1 = Pending, 2 = Ready / item, 3 = Ready / None (streams)
    pub force: [u16; M],
    /// deferred violations, see `report`
    pub viol: [bool; NV],
    /// group member i was removed by the owner (must never be polled again)
    pub removed: [bool; M],
    /// C17: stream i has an item every time it is polled
    pub always: [bool; M],
    /// a child returning Ready (race) / Err (try_join) / Ok (race_ok) decides the combinator:
    /// bit0 = on Ready, bit1 = on Err, bit2 = on Ok
    pub short: u8,
    /// children are evaluated strictly in order (chain, wait_until)
    pub sequential: bool,
    /// the sequential family is chain (not wait_until)
    pub seq_is_chain: bool,
    /// items produced by children during the current poll
    pub items_this_poll: u8,
    /// std configuration: really drop the combinator at the end (needs a harness without the
    /// `drop_slow` stub)
    pub drop_in_std: bool,
    /// which pending side effects children may have: bit0 self-wake, bit1 wake a sibling
    pub opts: u8,
    /// Child i was legitimately re-armed by the combinator (zip after a full row).
    pub rearmed: [bool; M],
    /// group harnesses: 11 = FutureGroup, 12 = StreamGroup (0 = not a group)
    pub group_fam: u8,
    /// wake-ups issued from inside a child's poll (self or sibling) so far
    pub inpoll_wakes: u8,

    /// Invocation count per parent waker (one waker per round).
    pub pwakes: [u8; RMAX],

    // ownership log
    pub child_state: [u8; M], // 0 not created, 1 live, 2 dropped
    pub val_state: [[u8; KMAX]; M], // 0 not made, 1 live, 2 dropped
    pub made: [u8; M],        // items produced so far by child i
    pub val_live: [u8; M],    // values of child i currently alive
    pub ready_clock: [u8; M], // clock at which child i resolved (futures)
    pub is_err: [bool; M],    // child i resolved to Err
}

pub const WORLD0: World = World {
    n: 0,
    in_poll: false,
    round: 0,
    decided: false,
    clock: 0,
    decider: 255,
    polls: [0; M],
    done: [false; M],
    last_poll_round: [0; M],
    polled_this_round: [false; M],
    woken: [false; M],
    fired_any: [false; M],
    last_item: [false; M],
    hkind: [H_NONE; M],
    hround: [0; M],
    hptr: [core::ptr::null(); M],
    forbidden: [false; M],
    c16: false,
    force: [0; M],
    viol: [false; NV],
    removed: [false; M],
    always: [false; M],
    short: 0,
    sequential: false,
    seq_is_chain: false,
    items_this_poll: 0,
    drop_in_std: false,
    opts: 3,
    rearmed: [false; M],
    group_fam: 0,
    inpoll_wakes: 0,
    pwakes: [0; RMAX],
    child_state: [0; M],
    val_state: [[0; KMAX]; M],
    made: [0; M],
    val_live: [0; M],
    ready_clock: [0; M],
    is_err: [false; M],
};

pub static mut W: World = WORLD0;

#[inline(always)]
pub fn w() -> &'static mut World {
    unsafe { &mut W }
}

pub fn reset(n: usize) {
    unsafe {
        W = WORLD0;
        W.n = n;
    }
}

// ---------------------------------------------------------------------------------------
// nondeterminism

#[cfg(kani)]
#[inline(always)]
pub fn any_u8() -> u8 {
    kani::any()
}
#[cfg(kani)]
#[inline(always)]
pub fn any_bool() -> bool {
    kani::any()
}
#[cfg(kani)]
#[inline(always)]
pub fn assume(c: bool) {
    kani::assume(c)
}
#[cfg(not(kani))]
pub fn any_u8() -> u8 {
    0
}
#[cfg(not(kani))]
pub fn any_bool() -> bool {
    false
}
#[cfg(not(kani))]
pub fn assume(_c: bool) {}

/// Straight-line repetition of `$body` for `$r` = 0, 1, .. while `$r < $n` (at most 8 times).
/// Harness loops over rounds are written with this instead of `while` so that the harness-wide
/// `#[kani::unwind]` bound can be as small as the number of children + 1: CBMC cannot
/// constant-propagate the length of a `Vec` that went through `MaybeUninit` (FutureVec,
/// OutputVec), so every loop over such a `Vec` is explored up to the unwind bound.
#[macro_export]
macro_rules! unroll_rounds {
    ($r:ident, $n:expr, $body:block) => {
        $crate::unroll_rounds!(@one $r, 0usize, $n, $body);
        $crate::unroll_rounds!(@one $r, 1usize, $n, $body);
        $crate::unroll_rounds!(@one $r, 2usize, $n, $body);
        $crate::unroll_rounds!(@one $r, 3usize, $n, $body);
        $crate::unroll_rounds!(@one $r, 4usize, $n, $body);
        $crate::unroll_rounds!(@one $r, 5usize, $n, $body);
        $crate::unroll_rounds!(@one $r, 6usize, $n, $body);
        $crate::unroll_rounds!(@one $r, 7usize, $n, $body);
    };
    (@one $r:ident, $k:expr, $n:expr, $body:block) => {
        #[allow(unused_variables, unused_mut)]
        let $r: usize = $k;
        if $r < $n $body
    };
}

#[macro_export]
macro_rules! cover {
    ($c:expr, $m:expr) => {
        #[cfg(kani)]
        kani::cover!($c, $m);
    };
}

// ---------------------------------------------------------------------------------------
// parent wakers: one fresh waker per round, data pointer = round number, no refcount.

unsafe fn pw_clone(p: *const ()) -> RawWaker {
    RawWaker::new(p, &PARENT_VTABLE)
}
pub unsafe fn pw_wake(p: *const ()) {
    let r = p as usize;
    let w = w();
    w.pwakes[r] = w.pwakes[r].saturating_add(1);
}
unsafe fn pw_drop(_p: *const ()) {}

pub static PARENT_VTABLE: RawWakerVTable = RawWakerVTable::new(pw_clone, pw_wake, pw_wake, pw_drop);

pub fn parent_waker(round: usize) -> Waker {
    unsafe { Waker::from_raw(RawWaker::new(round as *const (), &PARENT_VTABLE)) }
}

pub fn is_parent(wk: &Waker) -> bool {
    core::ptr::eq(wk.vtable(), &PARENT_VTABLE)
}

fn remember_handle(id: usize, wk: &Waker) {
    let w = w();
    if is_parent(wk) {
        w.hkind[id] = H_PARENT;
        w.hround[id] = wk.data() as usize as u8;
    } else {
        w.hkind[id] = H_SUB;
        w.hptr[id] = wk as *const Waker;
    }
}

/// Fire the most recent waker of child `i` (call with a concrete `i` only).
pub fn fire(i: usize) {
    let w = w();
    let k = w.hkind[i];
    if k == H_NONE {
        return;
    }
    w.woken[i] = true;
    w.fired_any[i] = true;
    if k == H_PARENT {
        unsafe { pw_wake(w.hround[i] as usize as *const ()) }
    } else {
        unsafe { (*w.hptr[i]).wake_by_ref() }
    }
}

/// Fire phase: the solver picks which children's current wakers are invoked, and whether twice.
pub fn fire_phase() {
    let n = w().n;
    let mut i = 0;
    while i < n {
        if any_bool() {
            fire(i);
            if any_bool() {
                fire(i);
            }
        }
        i += 1;
    }
}

// ---------------------------------------------------------------------------------------
// values with drop accounting

/// A value produced by child `id` (its `seq`-th). Dropping it twice, or dropping a value that
/// was never produced, fails an assertion at the drop site.
pub struct Tok {
    pub id: u8,
    pub seq: u8,
}

impl Tok {
    fn make(id: usize, seq: usize) -> Tok {
        let w = w();
        assert!(w.val_state[id][seq] == 0, "C02: value produced twice (harness)");
        w.val_state[id][seq] = 1;
        w.val_live[id] += 1;
        Tok {
            id: id as u8,
            seq: seq as u8,
        }
    }
}

impl core::fmt::Debug for Tok {
    fn fmt(&self, _f: &mut core::fmt::Formatter<'_>) -> core::fmt::Result {
        Ok(())
    }
}

impl Drop for Tok {
    fn drop(&mut self) {
        let w = w();
        let (id, seq) = (self.id as usize, self.seq as usize);
        assert!(id < M && seq < KMAX, "C02: dropped a value no child produced");
        assert!(
            w.val_state[id][seq] == 1,
            "C02: value dropped twice or never produced"
        );
        w.val_state[id][seq] = 2;
        w.val_live[id] -= 1;
    }
}

// ---------------------------------------------------------------------------------------
// common child bookkeeping

/// Deferred violations. Kani's `assert!` is assert-then-assume: a failed assertion ends the
/// path. Discipline violations (C01/C03/C10/C16/C19/C20 ...) are therefore *recorded* here and
/// asserted by `report()` at the very end of the harness, so that a change which first trips
/// one of them still reaches the family oracle (C04..C10) with its downstream effect, and each
/// property's check sees its own assertion fail. After an illegal poll a scripted child
/// behaves benignly (Pending / None), as a tolerant real child would.
pub const V_OUTSIDE: usize = 0;
pub const V_AFTER_DONE: usize = 1;
pub const V_AFTER_DECIDED: usize = 2;
pub const V_TOO_EARLY: usize = 3;
pub const V_REMOVED: usize = 4;
pub const V_AFTER_DROP: usize = 5;
pub const V_C16: usize = 6;
pub const V_LOST_WAKE: usize = 7;
pub const V_NOT_STARTED: usize = 8;
pub const V_WOKEN_NOT_POLLED: usize = 9;
pub const NV: usize = 10;

pub fn note(v: usize) {
    w().viol[v] = true;
}

/// Assert that no deferred violation was recorded (called by `finish`).
///
/// Several classes may be recorded at once (a Pending return that skipped a woken child is both
/// "woken, not polled" and a lost wake-up for the fresh task waker). Kani's `assert!` is
/// assert-then-assume, so a failing assertion would hide the ones behind it and the check of the
/// property tagged on the later one would stay silent (seeded change C20-m2). The class to report
/// is therefore the solver's choice: every recorded class is reachable on its own path.
pub fn report() {
    let w = w();
    let v = &w.viol;
    if !(v[0] || v[1] || v[2] || v[3] || v[4] || v[5] || v[6] || v[7] || v[8] || v[9]) {
        return;
    }
    let pick = any_u8() as usize;
    assume(pick < NV);
    if pick == V_OUTSIDE {
        assert!(!w.viol[V_OUTSIDE], "C03: child polled outside its owner's poll");
    }
    if pick == V_AFTER_DONE && w.viol[V_AFTER_DONE] {
        if w.short == 4 {
            assert!(false, "C03/C07: child polled again after it completed (failed)");
        } else if w.sequential && w.n == 2 && !w.seq_is_chain {
            assert!(false, "C03/C19: deadline (or inner) polled again after it completed");
        } else {
            assert!(false, "C03: child polled after it completed");
        }
    }
    if pick == V_AFTER_DECIDED && w.viol[V_AFTER_DECIDED] {
        // the short-circuit clause is also part of the family's own property
        match w.short {
            1 => assert!(false, "C03/C06: child polled after the race was decided"),
            2 => assert!(false, "C03/C05: child polled after try_join saw a failure"),
            4 => assert!(false, "C03/C07: child polled after race_ok saw a success"),
            _ => assert!(false, "C03: child polled after the combinator produced its final result"),
        }
    }
    if pick == V_TOO_EARLY {
        assert!(
            !w.viol[V_TOO_EARLY],
            "C10/C19: child polled before every earlier child had finished"
        );
    }
    if pick == V_REMOVED {
        assert!(
            !w.viol[V_REMOVED],
            "C03/C11/C12: member polled after it was removed from its group"
        );
    }
    if pick == V_AFTER_DROP {
        assert!(!w.viol[V_AFTER_DROP], "C02/C03: child polled after it was dropped");
    }
    if pick == V_C16 {
        assert!(
            !w.viol[V_C16],
            "C16: pending child re-polled although none of its wakers fired"
        );
    }
    if pick == V_LOST_WAKE && w.viol[V_LOST_WAKE] {
        // in a group a lost wake-up means the member's output / items are never yielded
        // ("across any interleaving of ... polling and child wake-ups")
        match w.group_fam {
            11 => assert!(false, "C01/C11: member woke its waker but the task that last polled the FutureGroup was not woken"),
            12 => assert!(false, "C01/C12: member woke its waker but the task that last polled the StreamGroup was not woken"),
            _ => assert!(false, "C01: child woke its waker but the task that last polled the combinator was not woken"),
        }
    }
    if pick == V_NOT_STARTED && w.viol[V_NOT_STARTED] {
        // in a group a member that was never polled holds no waker: nothing can ever make the
        // group poll it, so its output / items are never yielded
        match w.group_fam {
            11 => assert!(false, "C20/C11: FutureGroup returned Pending although a live member was never polled (its output can never be yielded)"),
            12 => assert!(false, "C20/C12: StreamGroup returned Pending although a live member was never polled (its items can never be yielded)"),
            _ => assert!(false, "C20: combinator returned Pending although a child was never polled"),
        }
    }
    if pick == V_WOKEN_NOT_POLLED && w.viol[V_WOKEN_NOT_POLLED] {
        // race / race_ok have no readiness tracking: they must look at every live child in every
        // poll, otherwise they do not resolve "in the first poll in which a child resolves"
        match w.group_fam {
            11 => assert!(false, "C01/C20/C11: a woken member was not polled by the FutureGroup poll that followed its wake-up"),
            12 => assert!(false, "C01/C20/C12: a woken member was not polled by the StreamGroup poll that followed its wake-up"),
            _ => {}
        }
        match w.short {
            1 => assert!(false, "C01/C20/C06: a woken child was not polled by the race poll that followed its wake-up"),
            4 => assert!(false, "C01/C20/C07: a woken child was not polled by the race_ok poll that followed its wake-up"),
            _ => assert!(false, "C01/C20: a woken child was not polled by the poll that followed its wake-up"),
        }
    }
}

/// Solver-chosen fork: either report the violations recorded so far right now (this path ends
/// at the failing assertion) or carry on towards the family oracle with them still recorded.
/// Both the discipline assertion and the downstream oracle failure stay reachable.
pub fn early_report() {
    let w = w();
    let v = &w.viol;
    let any = v[0] || v[1] || v[2] || v[3] || v[4] || v[5] || v[6] || v[7] || v[8] || v[9];
    if any && any_bool() {
        report();
    }
}

/// Returns false if the poll is illegal (the child then answers Pending / None).
fn on_poll(id: usize, cx: &Context<'_>) -> bool {
    let w = w();
    let mut legal = true;
    if !w.in_poll {
        w.viol[V_OUTSIDE] = true;
    }
    if w.done[id] {
        w.viol[V_AFTER_DONE] = true;
        legal = false;
    }
    if w.decided {
        w.viol[V_AFTER_DECIDED] = true;
    }
    if w.forbidden[id] {
        w.viol[V_TOO_EARLY] = true;
    }
    if w.sequential {
        let mut j = 0;
        while j < id {
            if !w.done[j] {
                w.viol[V_TOO_EARLY] = true;
            }
            j += 1;
        }
    }
    if w.removed[id] {
        w.viol[V_REMOVED] = true;
        legal = false;
    }
    if w.child_state[id] != 1 {
        w.viol[V_AFTER_DROP] = true;
        legal = false;
    }
    if w.c16 && !(w.polls[id] == 0 || w.fired_any[id] || w.last_item[id] || w.rearmed[id]) {
        w.viol[V_C16] = true;
    }
    early_report();
    w.rearmed[id] = false;
    w.polls[id] = w.polls[id].saturating_add(1);
    w.last_poll_round[id] = w.round;
    w.polled_this_round[id] = true;
    w.woken[id] = false;
    w.fired_any[id] = false;
    w.last_item[id] = false;
    remember_handle(id, cx.waker());
    w.clock = w.clock.saturating_add(1);
    legal
}

/// Next forced outcome of child `id` (0 = free choice).
fn next_forced(id: usize) -> u16 {
    let w = w();
    let f = w.force[id] & 3;
    w.force[id] >>= 2;
    f
}

/// What a scripted child does when it stays pending.
fn pending_side_effects(id: usize, cx: &Context<'_>) {
    if w().opts & 3 == 0 {
        // quiet children: no wake-ups from inside a poll (concrete test, so that the wake
        // code below is not even explored); bit 2 of `opts` = wake-ups between operations only
        return;
    }
    let d = any_u8() & ((w().opts & 3) | 0xfc);
    if d & 1 != 0 {
        // wake myself from inside my own poll
        let w = w();
        w.woken[id] = true;
        w.fired_any[id] = true;
        w.inpoll_wakes = w.inpoll_wakes.saturating_add(1);
        cx.waker().wake_by_ref();
    }
    if d & 2 != 0 {
        // wake a sibling (any other child, solver's choice) from inside my poll
        let n = w().n;
        let j = ((d >> 2) & 3) as usize;
        if j < n && j != id {
            w().inpoll_wakes = w().inpoll_wakes.saturating_add(1);
            fire_sibling(j);
        }
    }
}

fn fire_sibling(j: usize) {
    // concrete dispatch
    match j {
        0 => fire(0),
        1 => fire(1),
        2 => fire(2),
        _ => fire(3),
    }
}

// ---------------------------------------------------------------------------------------
// scripted future

pub struct Fut {
    pub id: usize,
}

impl Fut {
    pub fn new(id: usize) -> Fut {
        let w = w();
        assert!(w.child_state[id] == 0);
        w.child_state[id] = 1;
        Fut { id }
    }
}

impl Drop for Fut {
    fn drop(&mut self) {
        let w = w();
        assert!(w.child_state[self.id] == 1, "C02: child dropped twice");
        w.child_state[self.id] = 2;
    }
}

impl Future for Fut {
    type Output = Tok;
    fn poll(self: Pin<&mut Self>, cx: &mut Context<'_>) -> Poll<Tok> {
        let id = self.id;
        if !on_poll(id, cx) {
            return Poll::Pending;
        }
        let f = next_forced(id);
        let ready = if f == 0 { any_bool() } else { f >= 2 };
        if ready {
            let w = w();
            w.done[id] = true;
            w.ready_clock[id] = w.clock;
            if w.short & 1 != 0 {
                w.decided = true;
                w.decider = id as u8;
            }
            Poll::Ready(Tok::make(id, 0))
        } else {
            pending_side_effects(id, cx);
            Poll::Pending
        }
    }
}

/// Scripted fallible future: `Ok(Tok)` / `Err(Tok)`.
pub struct TryFut {
    pub id: usize,
}

impl TryFut {
    pub fn new(id: usize) -> TryFut {
        let w = w();
        assert!(w.child_state[id] == 0);
        w.child_state[id] = 1;
        TryFut { id }
    }
}

impl Drop for TryFut {
    fn drop(&mut self) {
        let w = w();
        assert!(w.child_state[self.id] == 1, "C02: child dropped twice");
        w.child_state[self.id] = 2;
    }
}

impl Future for TryFut {
    type Output = Result<Tok, Tok>;
    fn poll(self: Pin<&mut Self>, cx: &mut Context<'_>) -> Poll<Result<Tok, Tok>> {
        let id = self.id;
        if !on_poll(id, cx) {
            return Poll::Pending;
        }
        if any_bool() {
            let w = w();
            w.done[id] = true;
            w.ready_clock[id] = w.clock;
            if any_bool() {
                w.is_err[id] = true;
                if w.short & 2 != 0 {
                    w.decided = true;
                    w.decider = id as u8;
                }
                Poll::Ready(Err(Tok::make(id, 0)))
            } else {
                if w.short & 4 != 0 {
                    w.decided = true;
                    w.decider = id as u8;
                }
                Poll::Ready(Ok(Tok::make(id, 0)))
            }
        } else {
            pending_side_effects(id, cx);
            Poll::Pending
        }
    }
}

// ---------------------------------------------------------------------------------------
// scripted stream

pub struct Strm {
    pub id: usize,
    /// maximum number of items this stream may produce
    pub cap: usize,
}

impl Strm {
    pub fn new(id: usize, cap: usize) -> Strm {
        let w = w();
        assert!(w.child_state[id] == 0);
        w.child_state[id] = 1;
        Strm { id, cap }
    }
}

impl Drop for Strm {
    fn drop(&mut self) {
        let w = w();
        assert!(w.child_state[self.id] == 1, "C02: child dropped twice");
        w.child_state[self.id] = 2;
    }
}

impl Stream for Strm {
    type Item = Tok;
    fn poll_next(self: Pin<&mut Self>, cx: &mut Context<'_>) -> Poll<Option<Tok>> {
        let id = self.id;
        if !on_poll(id, cx) {
            return Poll::Ready(None);
        }
        let f = next_forced(id);
        let w = w();
        let d = if w.always[id] {
            1
        } else if f == 1 {
            0
        } else if f == 2 {
            1
        } else if f == 3 {
            2
        } else {
            any_u8()
        };
        if d == 0 {
            pending_side_effects(id, cx);
            Poll::Pending
        } else if d == 1 && (w.made[id] as usize) < self.cap {
            let k = w.made[id] as usize;
            w.made[id] += 1;
            w.items_this_poll += 1;
            w.last_item[id] = true;
            w.ready_clock[id] = w.clock;
            Poll::Ready(Some(Tok::make(id, k)))
        } else {
            w.done[id] = true;
            w.ready_clock[id] = w.clock;
            Poll::Ready(None)
        }
    }
}

// ---------------------------------------------------------------------------------------
// generic post-conditions shared by all round runners

/// Every child and every value has been dropped exactly once (call after the combinator and all
/// values handed out are gone).
pub fn assert_all_dropped() {
    let w = w();
    let mut i = 0;
    // children are created with ids below `n` only
    while i < w.n {
        assert!(
            w.child_state[i] == 0 || w.child_state[i] == 2,
            "C02: child leaked (not dropped with its combinator)"
        );
        if w.val_live[i] != 0 {
            // try_join: "values already produced by other children are dropped rather than returned"
            if w.short == 2 && w.decider != 255 {
                assert!(false, "C02/C05: value produced by a sibling was neither returned nor dropped after try_join failed");
            }
            assert!(false, "C02: value leaked");
        }
        i += 1;
    }
}

/// All children are dropped (call right after dropping the combinator).
pub fn assert_children_dropped() {
    let w = w();
    let mut i = 0;
    while i < w.n {
        assert!(
            w.child_state[i] == 0 || w.child_state[i] == 2,
            "C02: child outlives the combinator that owned it"
        );
        i += 1;
    }
}

pub fn begin_poll(round: usize) {
    let w = w();
    w.in_poll = true;
    w.round = round as u8;
    w.polled_this_round = [false; M];
    w.items_this_poll = 0;
}

pub fn end_poll() {
    w().in_poll = false;
}

/// Invariant W (C01): if a live, relevant child's current waker has been invoked since that
/// child was last polled, the waker passed to the most recent poll has been invoked.
/// `relevant(i)` is supplied by the family.
pub fn assert_no_lost_wake(last_round: usize, relevant: impl Fn(usize) -> bool) {
    let w = w();
    let mut i = 0;
    while i < w.n {
        if !w.done[i] && w.child_state[i] == 1 && w.polls[i] > 0 && w.woken[i] && relevant(i) {
            if w.pwakes[last_round] == 0 {
                w.viol[V_LOST_WAKE] = true;
            }
        }
        i += 1;
    }
}

/// C20 first sentence: after a poll that returned Pending every owned child has been polled.
pub fn assert_all_started() {
    let w = w();
    let mut i = 0;
    while i < w.n {
        if w.polls[i] == 0 {
            w.viol[V_NOT_STARTED] = true;
        }
        i += 1;
    }
}

/// C01 consumption: a child whose waker fired before this poll and that is still live must
/// have been polled in this poll when it returned Pending. `woken_before[i]` is the snapshot
/// taken right before the poll.
pub fn assert_woken_were_polled(woken_before: [bool; M], relevant: impl Fn(usize) -> bool) {
    let w = w();
    let mut i = 0;
    while i < w.n {
        if woken_before[i] && w.child_state[i] == 1 && relevant(i) {
            if !w.polled_this_round[i] {
                w.viol[V_WOKEN_NOT_POLLED] = true;
            }
        }
        i += 1;
    }
}

pub fn snapshot_woken() -> [bool; M] {
    let w = w();
    let mut s = [false; M];
    let mut i = 0;
    while i < w.n {
        s[i] = w.woken[i] && !w.done[i] && w.polls[i] > 0;
        i += 1;
    }
    s
}

/// End of a harness: drop the combinator in place and check ownership (alloc / no_std), or
/// leak it (std schedule harnesses, see `stubs::drop_slow_stub`).
pub fn finish<T>(slot: &mut core::mem::ManuallyDrop<T>) {
    if cfg!(feature = "std") && !w().drop_in_std {
        // leaked on purpose
    } else {
        w().decided = true; // dropping polls nothing
        unsafe { core::mem::ManuallyDrop::drop(slot) };
        assert_children_dropped();
        assert_all_dropped();
    }
    report();
}
