//! Nests of combinators (C01: "no schedule leaves a combinator (or a nest of combinators)
//! pending with no wake-up outstanding"). The leaves are the kit's scripted children; the
//! oracles of the families are stated over the leaves' token ids, so they apply unchanged to a
//! combinator whose children are themselves combinators of the same family:
//!   * join of (join of (f0, f1), f2): resolves in the poll in which the last leaf resolves,
//!     every leaf's output at its own (nested) position;
//!   * merge of (merge of (s0, s1), s2): every leaf item exactly once, per-leaf order, None iff
//!     all leaves ended.
//! In the std configuration a leaf's wake-up travels through two levels of the crate's
//! sub-wakers (inner `InlineWakerArray` -> outer `InlineWakerArray` -> task waker); invariant W,
//! "woken => polled", C16 and C20 are asserted on the leaves exactly as in the flat harnesses.

use crate::cover;
use crate::fam_fut::{run_fut, run_fut_opts, witness, witness_drop, Fam, FutCase, Out};
use crate::fam_stream::{run_stream, SFam, SOut, StrCase};
use crate::kit::*;
use core::task::Poll;
use futures_concurrency::prelude::*;

type J2 = <(Fut, Fut) as futures_concurrency::future::Join>::Future;
type TJ2 = <(TryFut, TryFut) as futures_concurrency::future::TryJoin>::Future;
type AJ2 = <[Fut; 2] as futures_concurrency::future::Join>::Future;

/// `((f0, f1).join(), f2).join()`
pub struct NestJoinTT;
impl FutCase for NestJoinTT {
    const N: usize = 3;
    const FAM: Fam = Fam::Join;
    type F = <(J2, Fut) as futures_concurrency::future::Join>::Future;
    fn make() -> Self::F {
        ((Fut::new(0), Fut::new(1)).join(), Fut::new(2)).join()
    }
    fn norm(res: Poll<((Tok, Tok), Tok)>) -> Out {
        match res {
            Poll::Pending => Out::Pending,
            Poll::Ready(v) => {
                let mut ids = [255u8; M];
                ids[0] = (v.0).0.id;
                ids[1] = (v.0).1.id;
                ids[2] = v.1.id;
                Out::Vals(ids, 3)
            }
        }
    }
}

/// `(f0, [f1, f2].join()).join()`: array join (WakerArray) inside a tuple join
pub struct NestJoinTA;
impl FutCase for NestJoinTA {
    const N: usize = 3;
    const FAM: Fam = Fam::Join;
    type F = <(Fut, AJ2) as futures_concurrency::future::Join>::Future;
    fn make() -> Self::F {
        (Fut::new(0), [Fut::new(1), Fut::new(2)].join()).join()
    }
    fn norm(res: Poll<(Tok, [Tok; 2])>) -> Out {
        match res {
            Poll::Pending => Out::Pending,
            Poll::Ready(v) => {
                let mut ids = [255u8; M];
                ids[0] = v.0.id;
                ids[1] = v.1[0].id;
                ids[2] = v.1[1].id;
                Out::Vals(ids, 3)
            }
        }
    }
}

/// `[(f0, f1).join(), (f2, f3).join()].join()` restricted to two leaves per inner join is N = 4;
/// the cheaper `[(f0, f1).join()].join()` (array of one tuple join) still has two waker levels.
pub struct NestJoinA1T;
impl FutCase for NestJoinA1T {
    const N: usize = 2;
    const FAM: Fam = Fam::Join;
    type F = <[J2; 1] as futures_concurrency::future::Join>::Future;
    fn make() -> Self::F {
        [(Fut::new(0), Fut::new(1)).join()].join()
    }
    fn norm(res: Poll<[(Tok, Tok); 1]>) -> Out {
        match res {
            Poll::Pending => Out::Pending,
            Poll::Ready(v) => {
                let mut ids = [255u8; M];
                ids[0] = v[0].0.id;
                ids[1] = v[0].1.id;
                Out::Vals(ids, 2)
            }
        }
    }
}

/// `((t0, t1).try_join(), t2).try_join()`: the error of a leaf of the inner try_join surfaces
/// through both levels in the same poll; no leaf is polled after it.
pub struct NestTryJoinTT;
impl FutCase for NestTryJoinTT {
    const N: usize = 3;
    const FAM: Fam = Fam::TryJoin;
    type F = <(TJ2, TryFut) as futures_concurrency::future::TryJoin>::Future;
    fn make() -> Self::F {
        ((TryFut::new(0), TryFut::new(1)).try_join(), TryFut::new(2)).try_join()
    }
    fn norm(res: Poll<Result<((Tok, Tok), Tok), Tok>>) -> Out {
        match res {
            Poll::Pending => Out::Pending,
            Poll::Ready(Ok(v)) => {
                let mut ids = [255u8; M];
                ids[0] = (v.0).0.id;
                ids[1] = (v.0).1.id;
                ids[2] = v.1.id;
                Out::Vals(ids, 3)
            }
            Poll::Ready(Err(e)) => Out::Err1(e.id),
        }
    }
}

type M2<const K: usize> = <(Strm, Strm) as futures_concurrency::stream::Merge>::Stream;
type AM2<const K: usize> = <[Strm; 2] as futures_concurrency::stream::Merge>::Stream;

fn item1(res: Poll<Option<Tok>>) -> SOut {
    match res {
        Poll::Pending => SOut::Pending,
        Poll::Ready(None) => SOut::End,
        Poll::Ready(Some(t)) => SOut::Item(t.id, t.seq),
    }
}

/// `((s0, s1).merge(), s2).merge()`
pub struct NestMergeTT<const K: usize>;
impl<const K: usize> StrCase for NestMergeTT<K> {
    const N: usize = 3;
    const FAM: SFam = SFam::Merge;
    type S = <(M2<K>, Strm) as futures_concurrency::stream::Merge>::Stream;
    fn make() -> Self::S {
        ((Strm::new(0, K), Strm::new(1, K)).merge(), Strm::new(2, K)).merge()
    }
    fn norm(res: Poll<Option<Tok>>) -> SOut {
        item1(res)
    }
}

/// `(s0, [s1, s2].merge()).merge()`
pub struct NestMergeTA<const K: usize>;
impl<const K: usize> StrCase for NestMergeTA<K> {
    const N: usize = 3;
    const FAM: SFam = SFam::Merge;
    type S = <(Strm, AM2<K>) as futures_concurrency::stream::Merge>::Stream;
    fn make() -> Self::S {
        (Strm::new(0, K), [Strm::new(1, K), Strm::new(2, K)].merge()).merge()
    }
    fn norm(res: Poll<Option<Tok>>) -> SOut {
        item1(res)
    }
}

/// `[(s0, s1).merge()].merge()`: two leaves, two waker levels
pub struct NestMergeA1T<const K: usize>;
impl<const K: usize> StrCase for NestMergeA1T<K> {
    const N: usize = 2;
    const FAM: SFam = SFam::Merge;
    type S = <[M2<K>; 1] as futures_concurrency::stream::Merge>::Stream;
    fn make() -> Self::S {
        [(Strm::new(0, K), Strm::new(1, K)).merge()].merge()
    }
    fn norm(res: Poll<Option<Tok>>) -> SOut {
        item1(res)
    }
}

fn deep() {
    // two levels of the crate's sub-wakers before the task waker is reached
    unsafe { crate::stubs::WAKE_DEPTH_MAX = 3 };
}

crate::proof!(nest_join_tt_r3, 6, {
    deep();
    let s = run_fut::<NestJoinTT>(3, false);
    witness(&s);
});
crate::proof!(nest_join_tt_r4, 6, {
    deep();
    let s = run_fut::<NestJoinTT>(4, false);
    witness(&s);
});
crate::proof!(nest_join_tt_r3_drop, 6, {
    deep();
    let s = run_fut::<NestJoinTT>(3, true);
    witness_drop(&s);
});
crate::proof!(nest_join_ta_r3, 6, {
    deep();
    let s = run_fut::<NestJoinTA>(3, false);
    witness(&s);
});
crate::proof!(nest_join_a1t_r3, 6, {
    deep();
    let s = run_fut::<NestJoinA1T>(3, false);
    witness(&s);
});
crate::proof!(nest_join_a1t_r3_quiet, 6, {
    deep();
    let s = run_fut_opts::<NestJoinA1T>(3, false, 0);
    witness(&s);
});
crate::proof!(nest_tryjoin_tt_r3, 6, {
    deep();
    let s = run_fut::<NestTryJoinTT>(3, false);
    witness(&s);
});
crate::proof!(nest_tryjoin_tt_r3_drop, 6, {
    deep();
    let s = run_fut::<NestTryJoinTT>(3, true);
    witness_drop(&s);
});

crate::proof!(nest_merge_tt_k1_r4, 7, {
    deep();
    let s = run_stream::<NestMergeTT<1>>(4, false, M);
    crate::fam_stream::witness(&s);
});
crate::proof!(nest_merge_tt_k1_r3_drop, 7, {
    deep();
    let s = run_stream::<NestMergeTT<1>>(3, true, M);
    crate::fam_stream::witness_drop(&s);
});
// `nest_merge_ta_k1_r4` (`NestMergeTA`, array merge inside a tuple merge, R = 4): 1.2 M program steps, out of memory at
// 28 GB - not registered; the tuple-in-tuple and tuple-in-array nests are.
crate::proof!(nest_merge_a1t_k2_r5, 7, {
    deep();
    let s = run_stream::<NestMergeA1T<2>>(5, false, M);
    crate::fam_stream::witness(&s);
});
crate::proof!(nest_merge_a1t_k1_r3, 7, {
    deep();
    let s = run_stream::<NestMergeA1T<1>>(3, false, M);
    crate::fam_stream::witness(&s);
});
