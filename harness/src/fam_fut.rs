//! Future combinators: join (C04), try_join (C05), race (C06), race_ok (C07) — with the generic
//! assertions of C01, C02, C03, C16, C20 carried by the kit. Oracles are transcriptions of the
//! property statements over the script log in `kit::World`; no combinator is modelled.

use crate::cover;
use crate::kit::*;
use core::future::Future;
use core::task::{Context, Poll};
use futures_concurrency::prelude::*;

#[derive(Clone, Copy, PartialEq, Eq)]
pub enum Fam {
    Join,
    TryJoin,
    Race,
    RaceOk,
}

/// Normalised result of one poll: which children's values came out, and where.
pub enum Out {
    Pending,
    /// success with one value per child, `ids[p]` = producer of the value at position `p`
    Vals([u8; M], usize),
    /// a single error value, produced by child `id`
    Err1(u8),
    /// a single success value, produced by child `id`
    Ok1(u8),
    /// aggregate error, `ids[p]` = producer of the error at position `p`
    Errs([u8; M], usize),
}

pub trait FutCase {
    const N: usize;
    const FAM: Fam;
    type F: Future;
    fn make() -> Self::F;
    /// Read the producers out of the output, then drop it.
    fn norm(res: Poll<<Self::F as Future>::Output>) -> Out;
}

fn all_done() -> bool {
    let w = w();
    let mut i = 0;
    while i < w.n {
        if !w.done[i] {
            return false;
        }
        i += 1;
    }
    true
}

fn any_done() -> bool {
    let w = w();
    let mut i = 0;
    while i < w.n {
        if w.done[i] {
            return true;
        }
        i += 1;
    }
    false
}

fn any_err() -> bool {
    let w = w();
    let mut i = 0;
    while i < w.n {
        if w.is_err[i] {
            return true;
        }
        i += 1;
    }
    false
}

fn all_err() -> bool {
    let w = w();
    let mut i = 0;
    while i < w.n {
        if !w.is_err[i] {
            return false;
        }
        i += 1;
    }
    true
}

fn positional(ids: &[u8; M], len: usize, n: usize) -> bool {
    if len != n {
        return false;
    }
    let mut i = 0;
    while i < n {
        if ids[i] as usize != i {
            return false;
        }
        i += 1;
    }
    true
}

/// Judge one poll result against the property of the family. Returns true iff the combinator
/// has completed.
fn judge(fam: Fam, out: Out, n: usize) -> bool {
    let w = w();
    match fam {
        Fam::Join => match out {
            Out::Pending => {
                assert!(
                    !all_done(),
                    "C04: join still pending after its last child resolved in this poll"
                );
                false
            }
            Out::Vals(ids, len) => {
                assert!(all_done(), "C04: join resolved before every child resolved");
                assert!(positional(&ids, len, n), "C04: output not at its child's position");
                true
            }
            _ => {
                assert!(false, "C04: join produced an impossible result");
                true
            }
        },
        Fam::TryJoin => match out {
            Out::Pending => {
                assert!(
                    !any_err(),
                    "C05: try_join still pending in the poll in which a child failed"
                );
                assert!(
                    !all_done(),
                    "C05: try_join still pending after all children resolved Ok"
                );
                false
            }
            Out::Vals(ids, len) => {
                assert!(
                    all_done() && !any_err(),
                    "C05: try_join returned Ok although not every child resolved to Ok"
                );
                assert!(positional(&ids, len, n), "C05: value not at its child's position");
                true
            }
            Out::Err1(id) => {
                assert!(w.decided, "C05: try_join returned an error no child produced");
                assert!(
                    id == w.decider,
                    "C05: try_join returned another error than the first one observed"
                );
                true
            }
            _ => {
                assert!(false, "C05: try_join produced an impossible result");
                true
            }
        },
        Fam::Race => match out {
            Out::Pending => {
                assert!(
                    !any_done(),
                    "C06: race still pending in a poll in which a child resolved"
                );
                false
            }
            Out::Ok1(id) => {
                assert!(w.decided, "C06: race resolved although no child resolved");
                assert!(
                    id == w.decider,
                    "C06: race returned another output than the first child seen to resolve"
                );
                true
            }
            _ => {
                assert!(false, "C06: race produced an impossible result");
                true
            }
        },
        Fam::RaceOk => match out {
            Out::Pending => {
                assert!(
                    !w.decided,
                    "C07: race_ok still pending in a poll in which a child succeeded"
                );
                assert!(
                    !all_done(),
                    "C07: race_ok still pending after its last child failed"
                );
                false
            }
            Out::Ok1(id) => {
                assert!(w.decided, "C07: race_ok returned Ok although no child succeeded");
                assert!(
                    id == w.decider,
                    "C07: race_ok returned another value than the first success observed"
                );
                true
            }
            Out::Errs(ids, len) => {
                assert!(
                    !w.decided && all_done() && all_err(),
                    "C07: race_ok returned Err although not every child failed"
                );
                assert!(
                    positional(&ids, len, n),
                    "C07: aggregate error does not hold each error at its child's position"
                );
                true
            }
            _ => {
                assert!(false, "C07: race_ok produced an impossible result");
                true
            }
        },
    }
}

pub struct Summary {
    pub completed: bool,
    pub polls: usize,
    pub rounds: usize,
}

/// Reachability witnesses (vacuity guards) of a schedule harness.
pub fn witness(s: &Summary) {
    cover!(s.completed && s.polls == s.rounds, "completed in the last allowed poll");
    cover!(!s.completed && s.polls == s.rounds, "still pending after all rounds");
}

/// Reachability witnesses of a drop harness.
pub fn witness_drop(s: &Summary) {
    cover!(!s.completed && s.polls > 0 && s.polls < s.rounds, "dropped mid-flight after at least one poll");
    cover!(!s.completed && s.polls == 0, "dropped without ever being polled");
    cover!(s.completed, "dropped after completion");
}

/// Round runner. At most `rounds` polls with a fresh parent waker each; between polls the
/// solver fires any subset of outstanding wakers. With `sym_drop` the combinator is dropped
/// after a solver-chosen number of polls (0..=rounds).
pub fn run_fut<C: FutCase>(rounds: usize, sym_drop: bool) -> Summary {
    run_fut_opts::<C>(rounds, sym_drop, 3)
}

/// `opts`: which side effects a pending child may have (bit 0 self-wake, bit 1 wake a sibling)
pub fn run_fut_opts<C: FutCase>(rounds: usize, sym_drop: bool, opts: u8) -> Summary {
    reset(C::N);
    w().opts = opts;
    {
        let w = w();
        let tracks = matches!(C::FAM, Fam::Join | Fam::TryJoin);
        w.c16 = cfg!(feature = "std") && tracks;
        w.short = match C::FAM {
            Fam::Join => 0,
            Fam::TryJoin => 2,
            Fam::Race => 1,
            Fam::RaceOk => 4,
        };
    }
    let mut slot = core::mem::ManuallyDrop::new(C::make());
    let sum;
    {
        // SAFETY: `slot` is not moved again; it is dropped in place (or leaked) by `finish`.
        let mut f = unsafe { core::pin::Pin::new_unchecked(&mut *slot) };
        let stop: usize = if sym_drop {
            let s = any_u8() as usize;
            assume(s <= rounds);
            s
        } else {
            rounds
        };
        let mut completed = false;
        let mut polls = 0usize;
        assert!(rounds <= 8);
        'rounds: {
            crate::unroll_rounds!(r, rounds, {
                if r == stop {
                    break 'rounds;
                }
                let wk = parent_waker(r);
                let mut cx = Context::from_waker(&wk);
                let before = snapshot_woken();
                begin_poll(r);
                let res = f.as_mut().poll(&mut cx);
                end_poll();
                polls = r + 1;
                completed = judge(C::FAM, C::norm(res), C::N);
                if completed {
                    w().decided = true;
                    break 'rounds;
                }
                // the poll returned Pending
                assert_all_started();
                assert_woken_were_polled(before, |_| true);
                assert_no_lost_wake(r, |_| true);
                fire_phase();
                assert_no_lost_wake(r, |_| true);
            });
        }
        // stale wake-ups (after completion, or before a mid-flight drop) must not poll a
        // child, panic or deadlock
        fire_phase();
        sum = Summary { completed, polls, rounds };
    }
    finish(&mut slot);
    sum
}

// ------------------------------------------------------------------------------------------
// normalisation helpers

fn vals_of_slice(v: &[Tok]) -> Out {
    let mut ids = [255u8; M];
    let mut i = 0;
    while i < v.len() && i < M {
        ids[i] = v[i].id;
        i += 1;
    }
    Out::Vals(ids, v.len())
}

fn errs_of_slice(v: &[Tok]) -> Out {
    let mut ids = [255u8; M];
    let mut i = 0;
    while i < v.len() && i < M {
        ids[i] = v[i].id;
        i += 1;
    }
    Out::Errs(ids, v.len())
}

// ------------------------------------------------------------------------------------------
// cases: arrays

pub struct ArrJoin<const N: usize>;
impl<const N: usize> FutCase for ArrJoin<N> {
    const N: usize = N;
    const FAM: Fam = Fam::Join;
    type F = <[Fut; N] as futures_concurrency::future::Join>::Future;
    fn make() -> Self::F {
        core::array::from_fn::<Fut, N, _>(Fut::new).join()
    }
    fn norm(res: Poll<[Tok; N]>) -> Out {
        match res {
            Poll::Pending => Out::Pending,
            Poll::Ready(v) => vals_of_slice(&v),
        }
    }
}

pub struct ArrTryJoin<const N: usize>;
impl<const N: usize> FutCase for ArrTryJoin<N> {
    const N: usize = N;
    const FAM: Fam = Fam::TryJoin;
    type F = <[TryFut; N] as futures_concurrency::future::TryJoin>::Future;
    fn make() -> Self::F {
        core::array::from_fn::<TryFut, N, _>(TryFut::new).try_join()
    }
    fn norm(res: Poll<Result<[Tok; N], Tok>>) -> Out {
        match res {
            Poll::Pending => Out::Pending,
            Poll::Ready(Ok(v)) => vals_of_slice(&v),
            Poll::Ready(Err(e)) => Out::Err1(e.id),
        }
    }
}

pub struct ArrRace<const N: usize>;
impl<const N: usize> FutCase for ArrRace<N> {
    const N: usize = N;
    const FAM: Fam = Fam::Race;
    type F = <[Fut; N] as futures_concurrency::future::Race>::Future;
    fn make() -> Self::F {
        core::array::from_fn::<Fut, N, _>(Fut::new).race()
    }
    fn norm(res: Poll<Tok>) -> Out {
        match res {
            Poll::Pending => Out::Pending,
            Poll::Ready(v) => Out::Ok1(v.id),
        }
    }
}

pub struct ArrRaceOk<const N: usize>;
impl<const N: usize> FutCase for ArrRaceOk<N> {
    const N: usize = N;
    const FAM: Fam = Fam::RaceOk;
    type F = <[TryFut; N] as futures_concurrency::future::RaceOk>::Future;
    fn make() -> Self::F {
        core::array::from_fn::<TryFut, N, _>(TryFut::new).race_ok()
    }
    fn norm(res: Poll<Result<Tok, <[TryFut; N] as futures_concurrency::future::RaceOk>::Error>>) -> Out {
        match res {
            Poll::Pending => Out::Pending,
            Poll::Ready(Ok(v)) => Out::Ok1(v.id),
            Poll::Ready(Err(agg)) => errs_of_slice(&agg[..]),
        }
    }
}

// ------------------------------------------------------------------------------------------
// cases: tuples (arity 2 and 3; arity 1 and 12 in `wide`)

macro_rules! tuple_cases {
    ($n:literal, $join:ident, $tryjoin:ident, $race:ident, $raceok:ident, ($($i:tt),+)) => {
        pub struct $join;
        impl FutCase for $join {
            const N: usize = $n;
            const FAM: Fam = Fam::Join;
            type F = <($(tuple_cases!(@ty Fut $i),)+) as futures_concurrency::future::Join>::Future;
            fn make() -> Self::F {
                ($(Fut::new($i),)+).join()
            }
            fn norm(res: Poll<($(tuple_cases!(@ty Tok $i),)+)>) -> Out {
                match res {
                    Poll::Pending => Out::Pending,
                    Poll::Ready(v) => {
                        let mut ids = [255u8; M];
                        $(ids[$i] = v.$i.id;)+
                        Out::Vals(ids, $n)
                    }
                }
            }
        }
        pub struct $tryjoin;
        impl FutCase for $tryjoin {
            const N: usize = $n;
            const FAM: Fam = Fam::TryJoin;
            type F = <($(tuple_cases!(@ty TryFut $i),)+) as futures_concurrency::future::TryJoin>::Future;
            fn make() -> Self::F {
                ($(TryFut::new($i),)+).try_join()
            }
            fn norm(res: Poll<Result<($(tuple_cases!(@ty Tok $i),)+), Tok>>) -> Out {
                match res {
                    Poll::Pending => Out::Pending,
                    Poll::Ready(Ok(v)) => {
                        let mut ids = [255u8; M];
                        $(ids[$i] = v.$i.id;)+
                        Out::Vals(ids, $n)
                    }
                    Poll::Ready(Err(e)) => Out::Err1(e.id),
                }
            }
        }
        pub struct $race;
        impl FutCase for $race {
            const N: usize = $n;
            const FAM: Fam = Fam::Race;
            type F = <($(tuple_cases!(@ty Fut $i),)+) as futures_concurrency::future::Race>::Future;
            fn make() -> Self::F {
                ($(Fut::new($i),)+).race()
            }
            fn norm(res: Poll<Tok>) -> Out {
                match res {
                    Poll::Pending => Out::Pending,
                    Poll::Ready(v) => Out::Ok1(v.id),
                }
            }
        }
        pub struct $raceok;
        impl FutCase for $raceok {
            const N: usize = $n;
            const FAM: Fam = Fam::RaceOk;
            type F = <($(tuple_cases!(@ty TryFut $i),)+) as futures_concurrency::future::RaceOk>::Future;
            fn make() -> Self::F {
                ($(TryFut::new($i),)+).race_ok()
            }
            fn norm(
                res: Poll<Result<Tok, <($(tuple_cases!(@ty TryFut $i),)+) as futures_concurrency::future::RaceOk>::Error>>,
            ) -> Out {
                match res {
                    Poll::Pending => Out::Pending,
                    Poll::Ready(Ok(v)) => Out::Ok1(v.id),
                    Poll::Ready(Err(agg)) => errs_of_slice(&agg[..]),
                }
            }
        }
    };
    (@ty $t:ty, $i:tt) => { $t };
    (@ty $t:ident $i:tt) => { $t };
}

tuple_cases!(1, Tup1Join, Tup1TryJoin, Tup1Race, Tup1RaceOk, (0));
tuple_cases!(2, Tup2Join, Tup2TryJoin, Tup2Race, Tup2RaceOk, (0, 1));
tuple_cases!(3, Tup3Join, Tup3TryJoin, Tup3Race, Tup3RaceOk, (0, 1, 2));

// `FutureExt::join` / `FutureExt::race` on two futures
pub struct ExtJoin;
impl FutCase for ExtJoin {
    const N: usize = 2;
    const FAM: Fam = Fam::Join;
    type F = <(Fut, Fut) as futures_concurrency::future::Join>::Future;
    fn make() -> Self::F {
        futures_concurrency::future::FutureExt::join(Fut::new(0), Fut::new(1))
    }
    fn norm(res: Poll<(Tok, Tok)>) -> Out {
        Tup2Join::norm(res)
    }
}
pub struct ExtRace;
impl FutCase for ExtRace {
    const N: usize = 2;
    const FAM: Fam = Fam::Race;
    type F = <(Fut, Fut) as futures_concurrency::future::Race>::Future;
    fn make() -> Self::F {
        futures_concurrency::future::FutureExt::race(Fut::new(0), Fut::new(1))
    }
    fn norm(res: Poll<Tok>) -> Out {
        Tup2Race::norm(res)
    }
}

// ------------------------------------------------------------------------------------------
// cases: Vec

#[cfg(feature = "alloc")]
mod vec_cases {
    use super::*;
    use alloc::vec::Vec;

    fn futs<T>(n: usize, mk: fn(usize) -> T) -> Vec<T> {
        let mut v = Vec::with_capacity(n);
        let mut i = 0;
        while i < n {
            v.push(mk(i));
            i += 1;
        }
        v
    }

    pub struct VecJoin<const N: usize>;
    impl<const N: usize> FutCase for VecJoin<N> {
        const N: usize = N;
        const FAM: Fam = Fam::Join;
        type F = <Vec<Fut> as futures_concurrency::future::Join>::Future;
        fn make() -> Self::F {
            futs(N, Fut::new).join()
        }
        fn norm(res: Poll<Vec<Tok>>) -> Out {
            match res {
                Poll::Pending => Out::Pending,
                Poll::Ready(v) => vals_of_slice(&v),
            }
        }
    }

    pub struct VecTryJoin<const N: usize>;
    impl<const N: usize> FutCase for VecTryJoin<N> {
        const N: usize = N;
        const FAM: Fam = Fam::TryJoin;
        type F = <Vec<TryFut> as futures_concurrency::future::TryJoin>::Future;
        fn make() -> Self::F {
            futs(N, TryFut::new).try_join()
        }
        fn norm(res: Poll<Result<Vec<Tok>, Tok>>) -> Out {
            match res {
                Poll::Pending => Out::Pending,
                Poll::Ready(Ok(v)) => vals_of_slice(&v),
                Poll::Ready(Err(e)) => Out::Err1(e.id),
            }
        }
    }

    pub struct VecRace<const N: usize>;
    impl<const N: usize> FutCase for VecRace<N> {
        const N: usize = N;
        const FAM: Fam = Fam::Race;
        type F = <Vec<Fut> as futures_concurrency::future::Race>::Future;
        fn make() -> Self::F {
            futs(N, Fut::new).race()
        }
        fn norm(res: Poll<Tok>) -> Out {
            match res {
                Poll::Pending => Out::Pending,
                Poll::Ready(v) => Out::Ok1(v.id),
            }
        }
    }

    pub struct VecRaceOk<const N: usize>;
    impl<const N: usize> FutCase for VecRaceOk<N> {
        const N: usize = N;
        const FAM: Fam = Fam::RaceOk;
        type F = <Vec<TryFut> as futures_concurrency::future::RaceOk>::Future;
        fn make() -> Self::F {
            futs(N, TryFut::new).race_ok()
        }
        fn norm(
            res: Poll<Result<Tok, <Vec<TryFut> as futures_concurrency::future::RaceOk>::Error>>,
        ) -> Out {
            match res {
                Poll::Pending => Out::Pending,
                Poll::Ready(Ok(v)) => Out::Ok1(v.id),
                Poll::Ready(Err(agg)) => errs_of_slice(&agg[..]),
            }
        }
    }
}
#[cfg(feature = "alloc")]
pub use vec_cases::*;

// ------------------------------------------------------------------------------------------
// proofs. Naming: <family>_<container><n>_r<rounds>[_drop]

crate::proof!(join_arr2_r4, 6, {
    let s = run_fut::<ArrJoin<2>>(4, false);
    witness(&s);
});
crate::proof!(join_tup2_r4, 6, {
    let s = run_fut::<Tup2Join>(4, false);
    witness(&s);
});
crate::proof!(join_arr2_r3_drop, 6, {
    let s = run_fut::<ArrJoin<2>>(3, true);
    witness_drop(&s);
});
crate::proof!(join_tup2_r3_drop, 6, {
    let s = run_fut::<Tup2Join>(3, true);
    witness_drop(&s);
});
crate::proof!(join_arr0_r1, 6, {
    let s = run_fut::<ArrJoin<0>>(1, false);
    cover!(s.completed, "resolved on the first poll");
});
crate::proof!(join_arr1_r3, 6, {
    let s = run_fut::<ArrJoin<1>>(3, false);
    witness(&s);
});
crate::proof!(join_tup1_r3, 6, {
    let s = run_fut::<Tup1Join>(3, false);
    witness(&s);
});
crate::proof!(join_arr3_r4, 6, {
    let s = run_fut::<ArrJoin<3>>(4, false);
    witness(&s);
});
crate::proof!(join_tup3_r4, 6, {
    let s = run_fut::<Tup3Join>(4, false);
    witness(&s);
});

crate::proof!(tryjoin_arr2_r4, 6, {
    let s = run_fut::<ArrTryJoin<2>>(4, false);
    witness(&s);
});
crate::proof!(tryjoin_tup2_r4, 6, {
    let s = run_fut::<Tup2TryJoin>(4, false);
    witness(&s);
});
crate::proof!(tryjoin_arr2_r3_drop, 6, {
    let s = run_fut::<ArrTryJoin<2>>(3, true);
    witness_drop(&s);
});
crate::proof!(tryjoin_tup2_r3_drop, 6, {
    let s = run_fut::<Tup2TryJoin>(3, true);
    witness_drop(&s);
});
crate::proof!(tryjoin_arr0_r1, 6, {
    let s = run_fut::<ArrTryJoin<0>>(1, false);
    cover!(s.completed, "resolved on the first poll");
});
crate::proof!(tryjoin_arr3_r4, 6, {
    let s = run_fut::<ArrTryJoin<3>>(4, false);
    witness(&s);
});
crate::proof!(tryjoin_tup3_r4, 6, {
    let s = run_fut::<Tup3TryJoin>(4, false);
    witness(&s);
});

crate::proof!(race_arr2_r4, 6, {
    let s = run_fut::<ArrRace<2>>(4, false);
    witness(&s);
});
crate::proof!(race_tup2_r4, 6, {
    let s = run_fut::<Tup2Race>(4, false);
    witness(&s);
});
crate::proof!(race_arr2_r3_drop, 6, {
    let s = run_fut::<ArrRace<2>>(3, true);
    witness_drop(&s);
});
crate::proof!(race_arr3_r5, 7, {
    let s = run_fut::<ArrRace<3>>(5, false);
    witness(&s);
});
crate::proof!(race_tup3_r5, 7, {
    let s = run_fut::<Tup3Race>(5, false);
    witness(&s);
});
crate::proof!(race_tup1_r3, 6, {
    let s = run_fut::<Tup1Race>(3, false);
    witness(&s);
});

crate::proof!(raceok_arr2_r4, 6, {
    let s = run_fut::<ArrRaceOk<2>>(4, false);
    witness(&s);
});
crate::proof!(raceok_tup2_r4, 6, {
    let s = run_fut::<Tup2RaceOk>(4, false);
    witness(&s);
});
crate::proof!(raceok_arr2_r3_drop, 6, {
    let s = run_fut::<ArrRaceOk<2>>(3, true);
    witness_drop(&s);
});
crate::proof!(raceok_tup2_r3_drop, 6, {
    let s = run_fut::<Tup2RaceOk>(3, true);
    witness_drop(&s);
});
crate::proof!(raceok_arr0_r1, 6, {
    let s = run_fut::<ArrRaceOk<0>>(1, false);
    cover!(s.completed, "resolved on the first poll");
});
crate::proof!(raceok_arr3_r5, 7, {
    let s = run_fut::<ArrRaceOk<3>>(5, false);
    witness(&s);
});
crate::proof!(raceok_tup3_r5, 7, {
    let s = run_fut::<Tup3RaceOk>(5, false);
    witness(&s);
});

crate::proof!(join_tup2_r3, 6, {
    let s = run_fut::<Tup2Join>(3, false);
    witness(&s);
});
crate::proof!(join_arr2_r3, 6, {
    let s = run_fut::<ArrJoin<2>>(3, false);
    witness(&s);
});
crate::proof!(tryjoin_tup2_r3, 6, {
    let s = run_fut::<Tup2TryJoin>(3, false);
    witness(&s);
});
crate::proof!(tryjoin_arr2_r3, 6, {
    let s = run_fut::<ArrTryJoin<2>>(3, false);
    witness(&s);
});
crate::proof!(join_arr3_r3, 6, {
    let s = run_fut::<ArrJoin<3>>(3, false);
    witness(&s);
});
crate::proof!(join_tup3_r3, 6, {
    let s = run_fut::<Tup3Join>(3, false);
    witness(&s);
});
crate::proof!(tryjoin_arr3_r3, 6, {
    let s = run_fut::<ArrTryJoin<3>>(3, false);
    witness(&s);
});
crate::proof!(tryjoin_tup3_r3, 6, {
    let s = run_fut::<Tup3TryJoin>(3, false);
    witness(&s);
});
crate::proof!(raceok_arr3_r3, 6, {
    let s = run_fut::<ArrRaceOk<3>>(3, false);
    witness(&s);
});
crate::proof!(raceok_tup3_r3, 6, {
    let s = run_fut::<Tup3RaceOk>(3, false);
    witness(&s);
});
crate::proof!(race_arr3_r3, 6, {
    let s = run_fut::<ArrRace<3>>(3, false);
    witness(&s);
});
crate::proof!(race_tup3_r3, 6, {
    let s = run_fut::<Tup3Race>(3, false);
    witness(&s);
});
crate::proof!(join_ext2_r4, 6, {
    let s = run_fut::<ExtJoin>(4, false);
    witness(&s);
});
crate::proof!(race_ext2_r4, 6, {
    let s = run_fut::<ExtRace>(4, false);
    witness(&s);
});

#[cfg(feature = "alloc")]
mod vec_proofs {
    use super::*;
    // small variants for the std configuration (FixedBitSet + Vec<Waker> are heavy): children
    // do not wake from inside a poll, wake-ups come from the fire phase only
    crate::proof!(join_vec2_r2_quiet, 4, {
        let s = run_fut_opts::<VecJoin<2>>(2, false, 0);
        witness(&s);
    });
    crate::proof!(tryjoin_vec2_r2_quiet, 4, {
        let s = run_fut_opts::<VecTryJoin<2>>(2, false, 0);
        witness(&s);
    });
    crate::proof!(join_vec2_r3_quiet, 4, {
        let s = run_fut_opts::<VecJoin<2>>(3, false, 0);
        witness(&s);
    });
    crate::proof!(join_vec2_r3, 6, {
        let s = run_fut::<VecJoin<2>>(3, false);
        witness(&s);
    });
    crate::proof!(tryjoin_vec2_r3, 6, {
        let s = run_fut::<VecTryJoin<2>>(3, false);
        witness(&s);
    });
    crate::proof!(raceok_vec2_r3, 6, {
        let s = run_fut::<VecRaceOk<2>>(3, false);
        witness(&s);
    });
    crate::proof!(join_vec2_r4, 6, {
    let s = run_fut::<VecJoin<2>>(4, false);
    witness(&s);
});
    crate::proof!(join_vec2_r3_drop, 6, {
    let s = run_fut::<VecJoin<2>>(3, true);
    witness_drop(&s);
});
    crate::proof!(join_vec0_r1, 6, {
    let s = run_fut::<VecJoin<0>>(1, false);
    cover!(s.completed, "resolved on the first poll");
});
    crate::proof!(join_vec3_r4, 6, {
    let s = run_fut::<VecJoin<3>>(4, false);
    witness(&s);
});
    crate::proof!(tryjoin_vec2_r4, 6, {
    let s = run_fut::<VecTryJoin<2>>(4, false);
    witness(&s);
});
    crate::proof!(tryjoin_vec2_r3_drop, 6, {
    let s = run_fut::<VecTryJoin<2>>(3, true);
    witness_drop(&s);
});
    crate::proof!(tryjoin_vec0_r1, 6, {
    let s = run_fut::<VecTryJoin<0>>(1, false);
    cover!(s.completed, "resolved on the first poll");
});
    crate::proof!(race_vec2_r4, 6, {
    let s = run_fut::<VecRace<2>>(4, false);
    witness(&s);
});
    crate::proof!(race_vec3_r5, 7, {
    let s = run_fut::<VecRace<3>>(5, false);
    witness(&s);
});
    crate::proof!(raceok_vec2_r4, 6, {
    let s = run_fut::<VecRaceOk<2>>(4, false);
    witness(&s);
});
    crate::proof!(raceok_vec2_r3_drop, 6, {
    let s = run_fut::<VecRaceOk<2>>(3, true);
    witness_drop(&s);
});
    crate::proof!(raceok_vec0_r1, 6, {
    let s = run_fut::<VecRaceOk<0>>(1, false);
    cover!(s.completed, "resolved on the first poll");
});
    crate::proof!(raceok_vec3_r5, 7, {
    let s = run_fut::<VecRaceOk<3>>(5, false);
    witness(&s);
});
}
