//! "Wide" cases (C04, C05): tuple arity 12 (the macros' index lists 0..11) and array / Vec
//! lengths across the SmallVec inline boundary (22/23) and the FixedBitSet block boundary
//! (64/65; Vec only, thorough tier), with a deliberately small schedule: every child resolves on its first or on its
//! second poll (solver's choice per child); two polls; positional oracle.
#![allow(static_mut_refs)]

use crate::cover;
use crate::kit::{any_bool, parent_waker};
use core::future::Future;
use core::pin::Pin;
use core::task::{Context, Poll};
use futures_concurrency::prelude::*;

pub const WMAX: usize = 66;

pub struct WWorld {
    pub polls: [u8; WMAX],
    pub done: [bool; WMAX],
    pub in_poll: bool,
    pub bad: bool,
}
pub static mut WW: WWorld = WWorld { polls: [0; WMAX], done: [false; WMAX], in_poll: false, bad: false };

fn ww() -> &'static mut WWorld {
    unsafe { &mut WW }
}

pub struct WFut(pub usize);
impl Future for WFut {
    type Output = u8;
    fn poll(self: Pin<&mut Self>, cx: &mut Context<'_>) -> Poll<u8> {
        let w = ww();
        let id = self.0;
        if w.done[id] || !w.in_poll {
            w.bad = true;
            return Poll::Pending;
        }
        w.polls[id] += 1;
        if w.polls[id] >= 2 || any_bool() {
            w.done[id] = true;
            Poll::Ready(id as u8)
        } else {
            cx.waker().wake_by_ref();
            Poll::Pending
        }
    }
}

pub struct WTry(pub usize);
impl Future for WTry {
    type Output = Result<u8, u8>;
    fn poll(self: Pin<&mut Self>, cx: &mut Context<'_>) -> Poll<Result<u8, u8>> {
        let w = ww();
        let id = self.0;
        if w.done[id] || !w.in_poll {
            w.bad = true;
            return Poll::Pending;
        }
        w.polls[id] += 1;
        if w.polls[id] >= 2 || any_bool() {
            w.done[id] = true;
            Poll::Ready(Ok(id as u8))
        } else {
            cx.waker().wake_by_ref();
            Poll::Pending
        }
    }
}

fn all_done(n: usize) -> bool {
    let w = ww();
    let mut i = 0;
    while i < n {
        if !w.done[i] {
            return false;
        }
        i += 1;
    }
    true
}

/// Two polls; returns the output (it must exist after the second poll).
fn drive<F: Future>(f: F, n: usize) -> F::Output {
    let mut f = core::pin::pin!(f);
    let mut r = 0;
    loop {
        let wk = parent_waker(r);
        let mut cx = Context::from_waker(&wk);
        ww().in_poll = true;
        let res = f.as_mut().poll(&mut cx);
        ww().in_poll = false;
        match res {
            Poll::Ready(out) => {
                assert!(all_done(n), "C04/C05: resolved before every child resolved");
                cover!(r == 1, "resolved on the second poll");
                assert!(!ww().bad, "C03: child polled after completion or outside the owner's poll");
                return out;
            }
            Poll::Pending => {
                assert!(!all_done(n), "C04/C05: still pending after the last child resolved in this poll");
                assert!(r == 0, "C04/C05: not resolved although every child resolves by its second poll");
                let mut i = 0;
                while i < n {
                    assert!(ww().polls[i] >= 1, "C20: returned Pending although a child was never polled");
                    i += 1;
                }
            }
        }
        r += 1;
    }
}

fn check_slice(out: &[u8], n: usize) {
    assert!(out.len() == n, "C04/C05: output has the wrong length");
    let mut i = 0;
    while i < n {
        assert!(out[i] as usize == i, "C04/C05: output not at its child's position");
        i += 1;
    }
}

macro_rules! wide_proof {
    ($name:ident, $unwind:literal, $body:block) => {
        #[cfg(kani)]
        #[kani::proof]
        #[kani::unwind($unwind)]
        #[kani::stub(core::array::from_fn, crate::stubs::from_fn_stub)]
        #[cfg_attr(feature = "std", kani::stub(std::sync::Mutex::lock, crate::stubs::lock_stub))]
        #[cfg_attr(feature = "std", kani::stub(core::task::Waker::wake_by_ref, crate::stubs::wake_by_ref_stub))]
        pub fn $name() $body
    };
}

wide_proof!(join_tup12, 14, {
    let out = drive(
        (WFut(0), WFut(1), WFut(2), WFut(3), WFut(4), WFut(5), WFut(6), WFut(7), WFut(8), WFut(9), WFut(10), WFut(11)).join(),
        12,
    );
    let v = [out.0, out.1, out.2, out.3, out.4, out.5, out.6, out.7, out.8, out.9, out.10, out.11];
    check_slice(&v, 12);
});

wide_proof!(tryjoin_tup12, 14, {
    let out = drive(
        (WTry(0), WTry(1), WTry(2), WTry(3), WTry(4), WTry(5), WTry(6), WTry(7), WTry(8), WTry(9), WTry(10), WTry(11)).try_join(),
        12,
    );
    match out {
        Ok(out) => {
            let v = [out.0, out.1, out.2, out.3, out.4, out.5, out.6, out.7, out.8, out.9, out.10, out.11];
            check_slice(&v, 12);
        }
        Err(_) => assert!(false, "C05: error although every child resolved Ok"),
    }
});

#[cfg(feature = "alloc")]
mod vecs {
    use super::*;
    fn futs(n: usize) -> alloc::vec::Vec<WFut> {
        let mut v = alloc::vec::Vec::with_capacity(n);
        let mut i = 0;
        while i < n {
            v.push(WFut(i));
            i += 1;
        }
        v
    }
    wide_proof!(join_vec23, 25, {
        let out = drive(futs(23).join(), 23);
        check_slice(&out, 23);
    });
    wide_proof!(join_vec65, 67, {
        let out = drive(futs(65).join(), 65);
        check_slice(&out, 65);
    });
}

// ------------------------------------------------------------------------------------------
// arity-12 stream tuples and race / race_ok tuples: same small schedule

use futures_core::Stream;

/// One item (its id) on the first or second poll, then `None`.
pub struct WStrm(pub usize, pub bool);
impl Stream for WStrm {
    type Item = u8;
    fn poll_next(mut self: Pin<&mut Self>, cx: &mut Context<'_>) -> Poll<Option<u8>> {
        let w = ww();
        let id = self.0;
        if w.done[id] || !w.in_poll {
            w.bad = true;
            return Poll::Ready(None);
        }
        if self.1 {
            w.done[id] = true;
            return Poll::Ready(None);
        }
        w.polls[id] += 1;
        if w.polls[id] >= 2 || any_bool() {
            self.1 = true;
            Poll::Ready(Some(id as u8))
        } else {
            cx.waker().wake_by_ref();
            Poll::Pending
        }
    }
}

/// Err(id) on the first or second poll.
pub struct WErr(pub usize);
impl Future for WErr {
    type Output = Result<u8, u8>;
    fn poll(self: Pin<&mut Self>, cx: &mut Context<'_>) -> Poll<Result<u8, u8>> {
        let w = ww();
        let id = self.0;
        if w.done[id] || !w.in_poll {
            w.bad = true;
            return Poll::Pending;
        }
        w.polls[id] += 1;
        if w.polls[id] >= 2 || any_bool() {
            w.done[id] = true;
            Poll::Ready(Err(id as u8))
        } else {
            cx.waker().wake_by_ref();
            Poll::Pending
        }
    }
}

macro_rules! t12 {
    ($t:ident) => {
        ($t(0), $t(1), $t(2), $t(3), $t(4), $t(5), $t(6), $t(7), $t(8), $t(9), $t(10), $t(11))
    };
    ($t:ident, $x:expr) => {
        ($t(0, $x), $t(1, $x), $t(2, $x), $t(3, $x), $t(4, $x), $t(5, $x), $t(6, $x), $t(7, $x), $t(8, $x), $t(9, $x), $t(10, $x), $t(11, $x))
    };
}

/// Poll a stream to its end (at most `max` polls); calls `f` per item.
fn drain<S: Stream>(s: S, max: usize, mut f: impl FnMut(S::Item)) -> bool {
    let mut s = core::pin::pin!(s);
    let mut r = 0;
    while r < max {
        let wk = parent_waker(r % 8);
        let mut cx = Context::from_waker(&wk);
        ww().in_poll = true;
        let res = s.as_mut().poll_next(&mut cx);
        ww().in_poll = false;
        match res {
            Poll::Ready(Some(x)) => f(x),
            Poll::Ready(None) => return true,
            Poll::Pending => {}
        }
        r += 1;
    }
    false
}

wide_proof!(raceok_tup12_all_err, 14, {
    let out = drive(t12!(WErr).race_ok(), 12);
    match out {
        Ok(_) => assert!(false, "C07: Ok although every child failed"),
        Err(agg) => check_slice(&agg[..], 12),
    }
});

wide_proof!(race_tup12, 14, {
    // resolves in the first poll in which a child resolves; at most two polls
    let f = t12!(WFut).race();
    let mut f = core::pin::pin!(f);
    let mut r = 0;
    let mut got = false;
    while r < 2 {
        let wk = parent_waker(r);
        let mut cx = Context::from_waker(&wk);
        ww().in_poll = true;
        let res = f.as_mut().poll(&mut cx);
        ww().in_poll = false;
        let mut n_done = 0;
        let mut last = 0;
        let mut i = 0;
        while i < 12 {
            if ww().done[i] {
                n_done += 1;
                last = i;
            }
            i += 1;
        }
        match res {
            Poll::Ready(v) => {
                assert!(n_done == 1 && v as usize == last, "C06: race did not return the first (only) child seen to resolve");
                got = true;
                break;
            }
            Poll::Pending => {
                assert!(n_done == 0, "C06: race still pending in a poll in which a child resolved");
                let mut i = 0;
                while i < 12 {
                    assert!(ww().polls[i] >= 1, "C20: race returned Pending although a child was never polled");
                    i += 1;
                }
            }
        }
        r += 1;
    }
    assert!(got, "C06: race not resolved although every child resolves by its second poll");
    assert!(!ww().bad, "C03: child polled after completion");
    cover!(r == 1, "resolved on the second poll");
});

wide_proof!(merge_tup12, 40, {
    let mut seen = [0u8; 12];
    let ended = drain(t12!(WStrm, false).merge(), 38, |x| seen[x as usize] += 1);
    assert!(ended, "C08: merge of 12 finite inputs did not end");
    let mut i = 0;
    while i < 12 {
        assert!(seen[i] == 1, "C08: item not yielded exactly once");
        i += 1;
    }
    assert!(!ww().bad, "C03: input polled after it returned None");
    cover!(ww().polls[11] == 2, "last input delivered its item on its second poll");
});

wide_proof!(zip_tup12, 14, {
    let mut rows = 0;
    let ended = drain(t12!(WStrm, false).zip(), 4, |row| {
        let v = [row.0, row.1, row.2, row.3, row.4, row.5, row.6, row.7, row.8, row.9, row.10, row.11];
        check_slice(&v, 12);
        rows += 1;
    });
    assert!(ended && rows == 1, "C09: zip of 12 one-item inputs must yield exactly one row and end");
    cover!(ww().polls[11] == 2, "last input delivered its item on its second poll");
});

