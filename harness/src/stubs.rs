//! Stubs used in the std configuration (see DESIGN.md §2.5). Each one is part of the claim.
#![allow(dead_code)]

/// `std::sync::Mutex::lock` replaced by `try_lock`: the run is single threaded, so a lock that
/// is already held can never be released by someone else; blocking would be a self-deadlock,
/// which is reported as a C01 violation instead of spinning in `lock_contended`.
#[cfg(feature = "std")]
pub fn lock_stub<T>(m: &std::sync::Mutex<T>) -> std::sync::LockResult<std::sync::MutexGuard<'_, T>> {
    match m.try_lock() {
        Ok(g) => Ok(g),
        Err(std::sync::TryLockError::Poisoned(p)) => Err(p),
        Err(std::sync::TryLockError::WouldBlock) => {
            panic!("C01: DEADLOCK - readiness lock taken while already held")
        }
    }
}

/// `core::array::from_fn` replaced by a plain write loop (same call order, same result).
pub fn from_fn_stub<T, const N: usize, F: FnMut(usize) -> T>(mut f: F) -> [T; N] {
    let mut out: core::mem::MaybeUninit<[T; N]> = core::mem::MaybeUninit::uninit();
    let p = out.as_mut_ptr() as *mut T;
    let mut i = 0;
    while i < N {
        unsafe { p.add(i).write(f(i)) };
        i += 1;
    }
    unsafe { out.assume_init() }
}

/// Concrete recursion guard for wake chains. CBMC resolves an indirect call through a
/// `RawWakerVTable` to every address-taken function of the same signature whenever it loses
/// track of the vtable pointer; the infeasible candidates then recurse (wake -> parent wake ->
/// ...). A *concrete* depth counter makes the guard of the deeper call syntactically false, so
/// the infeasible recursion is cut, while a feasible one fails the assertion (reported as C01).
pub static mut WAKE_DEPTH: u8 = 0;
pub static mut WAKE_DEPTH_MAX: u8 = 2;

/// Replacement for the inherent `Waker::wake_by_ref`: `w.clone().wake()`, which is the body of
/// the default `alloc::task::Wake::wake_by_ref` (used by the crate's `InlineWaker*`, which do
/// not override it) and a no-op-clone + wake for the harness parent waker.
pub fn wake_by_ref_stub(w: &core::task::Waker) {
    unsafe {
        if crate::kit::is_parent(w) {
            // the harness' own task waker: its wake function, called directly
            crate::kit::pw_wake(w.data());
            return;
        }
        assert!(
            WAKE_DEPTH + 1 < WAKE_DEPTH_MAX,
            "C01: a sub-waker's parent at the outermost nesting level is not the task's waker"
        );
        WAKE_DEPTH += 1;
        w.clone().wake();
        WAKE_DEPTH -= 1;
    }
}

/// `Arc::drop_slow` (last strong reference gone) can only legitimately run when a combinator
/// is dropped. Std-configuration schedule harnesses leak the combinator at the end (ownership
/// is checked in the alloc / no_std configurations, which run the same combinator code), so
/// reaching it is reported; the infeasible drop chains CBMC would otherwise explore are cut.
#[cfg(all(kani, feature = "std"))]
pub unsafe fn drop_slow_stub<T: ?Sized, A: core::alloc::Allocator>(_a: &mut alloc::sync::Arc<T, A>) {
    panic!("C02: a reference-counted waker was freed while the combinator was alive");
}

/// Declares a Kani proof harness with the stub set of the active configuration
/// (DESIGN.md section 2.5 lists every stub and what it assumes).
#[macro_export]
macro_rules! proof {
    ($name:ident, $unwind:literal, $body:block) => {
        #[cfg(kani)]
        #[kani::proof]
        #[kani::unwind($unwind)]
        #[kani::stub(core::array::from_fn, $crate::stubs::from_fn_stub)]
        #[cfg_attr(feature = "std", kani::stub(std::sync::Mutex::lock, $crate::stubs::lock_stub))]
        #[cfg_attr(
            feature = "std",
            kani::stub(core::task::Waker::wake_by_ref, $crate::stubs::wake_by_ref_stub)
        )]
        #[cfg_attr(
            feature = "std",
            kani::stub(alloc::sync::Arc::drop_slow, $crate::stubs::drop_slow_stub)
        )]
        pub fn $name() $body
    };
}

