//! FutureGroup (C11) and StreamGroup (C12): a solver-chosen operation history against a
//! harness-side reference set (an array of `live` flags — a specification object, not a model
//! of the group). Generic assertions C01, C02, C03, C20 come from the kit.
#![cfg(feature = "alloc")]

use crate::cover;
use crate::kit::*;
use core::pin::Pin;
use core::task::{Context, Poll};
use futures_concurrency::future::future_group;
use futures_concurrency::future::FutureGroup;
use futures_concurrency::stream::stream_group;
use futures_concurrency::stream::StreamGroup;
use futures_core::Stream;

/// members per history
pub const G: usize = 3;
/// std configuration: which wake-ups members produce (kit::World::opts): 4 = only between
/// operations (fire phase), 7 = also from inside polls (self-wake, wake a sibling)
pub static mut STD_OPTS: u8 = 4;

pub struct Ref<K: Copy + PartialEq> {
    pub inserted: usize,
    pub live: [bool; G],
    pub key: [Option<K>; G],
    pub yielded: [u8; G],
    pub polls: usize,
    pub nones: usize,
    pub removes_hit: usize,
    pub reused: bool,
}

impl<K: Copy + PartialEq> Ref<K> {
    fn new() -> Self {
        Ref {
            inserted: 0,
            live: [false; G],
            key: [None; G],
            yielded: [0; G],
            polls: 0,
            nones: 0,
            removes_hit: 0,
            reused: false,
        }
    }
    fn live_count(&self) -> usize {
        let mut c = 0;
        let mut i = 0;
        while i < G {
            if self.live[i] {
                c += 1;
            }
            i += 1;
        }
        c
    }
    /// does some live member hold key `k`?
    fn key_live(&self, k: K) -> bool {
        let mut i = 0;
        while i < G {
            if self.live[i] && self.key[i] == Some(k) {
                return true;
            }
            i += 1;
        }
        false
    }
    fn note_insert(&mut self, id: usize, k: K) {
        assert!(
            !self.key_live(k),
            "C11/C12: insert returned a key that a live member already holds"
        );
        let mut i = 0;
        while i < G {
            if self.key[i] == Some(k) {
                self.reused = true;
            }
            i += 1;
        }
        self.key[id] = Some(k);
        self.live[id] = true;
        self.inserted += 1;
    }
}

/// std configuration: the handles the harness keeps are *borrowed* pointers to the sub-wakers
/// inside the group's `Vec<Waker>` (a clone would make an `Arc` count path dependent, see kit).
/// `insert` / `reserve` may reallocate that vector, so the borrowed pointers are dropped: a
/// member can be woken again once it has been polled again. (A real child holds a clone; the
/// coverage lost is "wake through a waker obtained before the group grew".)
fn forget_handles() {
    if cfg!(feature = "std") {
        let w = w();
        let mut i = 0;
        while i < G {
            w.hkind[i] = H_NONE;
            i += 1;
        }
    }
}

// -------------------------------------------------------------------------------------------
// FutureGroup

fn fg_view(g: &mut FutureGroup<Fut>, r: &Ref<future_group::Key>) {
    let n = r.live_count();
    assert!(g.len() == n, "C11: len() differs from the number of live members");
    assert!(g.is_empty() == (n == 0), "C11: is_empty() wrong");
    assert!(g.capacity() >= g.len(), "C11: capacity() below len()");
    let mut i = 0;
    while i < G {
        if let Some(k) = r.key[i] {
            assert!(
                g.contains_key(k) == r.key_live(k),
                "C11: contains_key() disagrees with the set of live members"
            );
        }
        i += 1;
    }
}

fn fg_remove(g: &mut FutureGroup<Fut>, r: &mut Ref<future_group::Key>, j: usize) {
    if let Some(k) = r.key[j] {
        // the member currently holding k (if any) is the one that goes
        let mut holder = G;
        let mut i = 0;
        while i < G {
            if r.live[i] && r.key[i] == Some(k) {
                holder = i;
            }
            i += 1;
        }
        let hit = g.remove(k);
        assert!(hit == (holder < G), "C11: remove() result disagrees with the set of live members");
        if holder < G {
            r.live[holder] = false;
            r.removes_hit += 1;
            let w = w();
            assert!(
                w.child_state[holder] == 2,
                "C11: removed future not dropped at removal"
            );
            w.removed[holder] = true;
        }
    }
}

pub fn run_future_group(steps: usize, keyed: bool, script: &[u8], force: [u16; G]) {
    reset(G);
    w().n = 0;
    // alloc configuration: wakers are the parent waker and readiness is constant, so wake-ups
    // carry no information; keep the members quiet (std harnesses switch this back on)
    w().opts = if cfg!(feature = "std") { unsafe { STD_OPTS } } else { 0 };
    // std: members are re-polled only after one of their wakers fired (C16)
    w().c16 = cfg!(feature = "std");
    w().force[0] = force[0];
    w().force[1] = force[1];
    w().force[2] = force[2];
    // round of the most recent poll if it returned Pending (invariant W is asserted against it)
    let mut pending_round: Option<usize> = None;
    w().group_fam = 11;
    let mut r: Ref<future_group::Key> = Ref::new();
    {
        // std: leaked at the end (see stubs::drop_slow_stub); otherwise dropped when the
        // wrappers are dropped by hand below
        let mut plain = core::mem::ManuallyDrop::new(FutureGroup::<Fut>::new());
        let mut keyedg = core::mem::ManuallyDrop::new(FutureGroup::<Fut>::new().keyed());
        let mut round = 0usize;
        assert!(steps <= 8);
        crate::unroll_rounds!(s, steps, {
            let op = if s < script.len() && script[s] != 255 { script[s] & 3 } else { any_u8() };
            assume(op < 4);
            let target = if s < script.len() && script[s] != 255 { (script[s] >> 2) as usize } else { G };
            let g: &mut FutureGroup<Fut> = if keyed { &mut **keyedg } else { &mut *plain };
            if s < script.len() && script[s] == EXT2 {
                // `Extend::extend` with two futures: reserve + insert, keys are not returned
                assert!(!keyed && r.inserted + 2 <= G);
                let id = r.inserted;
                g.extend([Fut::new(id), Fut::new(id + 1)]);
                w().n = id + 2;
                r.live[id] = true;
                r.live[id + 1] = true;
                r.inserted += 2;
                forget_handles();
            } else if op == 0 {
                if r.inserted < G {
                    let id = r.inserted;
                    let k = g.insert(Fut::new(id));
                    w().n = id + 1;
                    r.note_insert(id, k);
                    forget_handles();
                }
            } else if op == 1 {
                let j = if target < G { target } else { any_u8() as usize };
                assume(j < G);
                match j {
                    0 => fg_remove(g, &mut r, 0),
                    1 => fg_remove(g, &mut r, 1),
                    _ => fg_remove(g, &mut r, 2),
                }
            } else if op == 2 {
                let extra = if target < G { target } else { any_u8() as usize };
                assume(extra <= 2);
                g.reserve(extra);
                forget_handles();
            } else if round < RMAX {
                let wk = parent_waker(round);
                let mut cx = Context::from_waker(&wk);
                let before = snapshot_woken();
                begin_poll(round);
                let res: Poll<Option<(Option<future_group::Key>, Tok)>> = if keyed {
                    match Pin::new(&mut *keyedg).poll_next(&mut cx) {
                        Poll::Pending => Poll::Pending,
                        Poll::Ready(None) => Poll::Ready(None),
                        Poll::Ready(Some((k, v))) => Poll::Ready(Some((Some(k), v))),
                    }
                } else {
                    match Pin::new(&mut *plain).poll_next(&mut cx) {
                        Poll::Pending => Poll::Pending,
                        Poll::Ready(None) => Poll::Ready(None),
                        Poll::Ready(Some(v)) => Poll::Ready(Some((None, v))),
                    }
                };
                end_poll();
                r.polls += 1;
                let res_pending = res.is_pending();
                match res {
                    Poll::Ready(Some((k, v))) => {
                        let id = v.id as usize;
                        assert!(id < G && r.live[id], "C11: yielded an output of a future that is not a live member");
                        assert!(r.yielded[id] == 0, "C11: output yielded twice");
                        if let Some(k) = k {
                            assert!(r.key[id] == Some(k), "C11: output paired with another key than its insert returned");
                        }
                        r.yielded[id] = 1;
                        r.live[id] = false;
                    }
                    Poll::Ready(None) => {
                        assert!(r.live_count() == 0, "C11: poll returned None although the group is not empty");
                        r.nones += 1;
                    }
                    Poll::Pending => {
                        assert!(r.live_count() > 0, "C11: poll returned Pending although the group is empty");
                        let mut i = 0;
                        while i < G {
                            if r.live[i] {
                                assert!(!w().done[i], "C11: a member resolved but its output was not yielded");
                                if w().polls[i] == 0 {
                                    note(V_NOT_STARTED);
                                }
                            }
                            i += 1;
                        }
                        let live = r.live;
                        let rel = move |i: usize| i < G && live[i];
                        assert_woken_were_polled(before, rel);
                        assert_no_lost_wake(round, rel);
                    }
                }
                pending_round = if res_pending { Some(round) } else { None };
                round += 1;
            }
            let g: &mut FutureGroup<Fut> = if keyed { &mut **keyedg } else { &mut *plain };
            fg_view(g, &r);
            if w().opts != 0 {
                fire_phase();
                if let Some(pr) = pending_round {
                    let live = r.live;
                    assert_no_lost_wake(pr, move |i: usize| i < G && live[i]);
                }
            }
        });
        cover!(r.polls >= 1 && r.inserted >= 1, "polled a non-trivial group");
        cover!(
            w().opts & 3 == 0 || (w().inpoll_wakes >= 1 && w().polls[0] >= 2),
            "(if enabled) a member woke a waker from inside its poll and was polled again"
        );
        w().decided = true;
        if !cfg!(feature = "std") {
            unsafe {
                core::mem::ManuallyDrop::drop(&mut plain);
                core::mem::ManuallyDrop::drop(&mut keyedg);
            }
        }
    }
    if !cfg!(feature = "std") {
        assert_children_dropped();
        assert_all_dropped();
    }
    report();
}

// -------------------------------------------------------------------------------------------
// StreamGroup

fn sg_view(g: &mut StreamGroup<Strm>, r: &Ref<stream_group::Key>) {
    let n = r.live_count();
    assert!(g.len() == n, "C12: len() differs from the number of live members");
    assert!(g.is_empty() == (n == 0), "C12: is_empty() wrong");
    assert!(g.capacity() >= g.len(), "C12: capacity() below len()");
    let mut i = 0;
    while i < G {
        if let Some(k) = r.key[i] {
            assert!(
                g.contains_key(k) == r.key_live(k),
                "C12: contains_key() disagrees with the set of live members"
            );
        }
        i += 1;
    }
}

fn sg_remove(g: &mut StreamGroup<Strm>, r: &mut Ref<stream_group::Key>, j: usize) {
    if let Some(k) = r.key[j] {
        let mut holder = G;
        let mut i = 0;
        while i < G {
            if r.live[i] && r.key[i] == Some(k) {
                holder = i;
            }
            i += 1;
        }
        let hit = g.remove(k);
        assert!(hit == (holder < G), "C12: remove() result disagrees with the set of live members");
        if holder < G {
            r.live[holder] = false;
            r.removes_hit += 1;
            let w = w();
            assert!(w.child_state[holder] == 2, "C12: removed stream not dropped at removal");
            w.removed[holder] = true;
        }
    }
}

pub fn run_stream_group(steps: usize, keyed: bool, cap: usize, script: &[u8], force: [u16; G]) {
    reset(G);
    w().n = 0;
    // alloc configuration: wakers are the parent waker and readiness is constant, so wake-ups
    // carry no information; keep the members quiet (std harnesses switch this back on)
    w().opts = if cfg!(feature = "std") { unsafe { STD_OPTS } } else { 0 };
    w().c16 = cfg!(feature = "std");
    w().force[0] = force[0];
    w().force[1] = force[1];
    w().force[2] = force[2];
    let mut pending_round: Option<usize> = None;
    w().group_fam = 12;
    let mut r: Ref<stream_group::Key> = Ref::new();
    {
        let mut plain = core::mem::ManuallyDrop::new(StreamGroup::<Strm>::new());
        let mut keyedg = core::mem::ManuallyDrop::new(StreamGroup::<Strm>::new().keyed());
        let mut round = 0usize;
        let mut ended_same_poll = false;
        assert!(steps <= 8);
        crate::unroll_rounds!(s, steps, {
            let op = if s < script.len() && script[s] != 255 { script[s] & 3 } else { any_u8() };
            assume(op < 4);
            let target = if s < script.len() && script[s] != 255 { (script[s] >> 2) as usize } else { G };
            let g: &mut StreamGroup<Strm> = if keyed { &mut **keyedg } else { &mut *plain };
            if op == 0 {
                if r.inserted < G {
                    let id = r.inserted;
                    let k = g.insert(Strm::new(id, cap));
                    w().n = id + 1;
                    r.note_insert(id, k);
                    forget_handles();
                }
            } else if op == 1 {
                let j = if target < G { target } else { any_u8() as usize };
                assume(j < G);
                match j {
                    0 => sg_remove(g, &mut r, 0),
                    1 => sg_remove(g, &mut r, 1),
                    _ => sg_remove(g, &mut r, 2),
                }
            } else if op == 2 {
                let extra = if target < G { target } else { any_u8() as usize };
                assume(extra <= 2);
                g.reserve(extra);
                forget_handles();
            } else if round < RMAX {
                let wk = parent_waker(round);
                let mut cx = Context::from_waker(&wk);
                let before = snapshot_woken();
                begin_poll(round);
                let res: Poll<Option<(Option<stream_group::Key>, Tok)>> = if keyed {
                    match Pin::new(&mut *keyedg).poll_next(&mut cx) {
                        Poll::Pending => Poll::Pending,
                        Poll::Ready(None) => Poll::Ready(None),
                        Poll::Ready(Some((k, v))) => Poll::Ready(Some((Some(k), v))),
                    }
                } else {
                    match Pin::new(&mut *plain).poll_next(&mut cx) {
                        Poll::Pending => Poll::Pending,
                        Poll::Ready(None) => Poll::Ready(None),
                        Poll::Ready(Some(v)) => Poll::Ready(Some((None, v))),
                    }
                };
                end_poll();
                r.polls += 1;
                // members that returned None in this poll are forgotten in this poll
                let mut ended_now = 0;
                let mut i = 0;
                while i < G {
                    if r.live[i] && w().done[i] {
                        r.live[i] = false;
                        ended_now += 1;
                        assert!(
                            w().child_state[i] == 2,
                            "C12: member that ended was not dropped in the poll in which it returned None"
                        );
                        assert!(
                            r.yielded[i] == w().made[i] || matches!(res, Poll::Ready(Some(_))),
                            "C12: member ended with an item never yielded"
                        );
                    }
                    i += 1;
                }
                if ended_now >= 2 {
                    ended_same_poll = true;
                }
                let res_pending = res.is_pending();
                match res {
                    Poll::Ready(Some((k, v))) => {
                        let id = v.id as usize;
                        assert!(id < G && r.key[id].is_some(), "C12: yielded an item of a stream that is not a member");
                        assert!(
                            v.seq == r.yielded[id],
                            "C12: item yielded twice, skipped or out of its member's order"
                        );
                        if let Some(k) = k {
                            assert!(r.key[id] == Some(k), "C12: item tagged with another key than its insert returned");
                        }
                        r.yielded[id] += 1;
                    }
                    Poll::Ready(None) => {
                        assert!(r.live_count() == 0, "C12: poll returned None although members remain");
                        r.nones += 1;
                    }
                    Poll::Pending => {
                        assert!(
                            r.live_count() > 0,
                            "C12: poll returned Pending although no members remain"
                        );
                        assert!(
                            w().items_this_poll == 0,
                            "C12: poll returned Pending in a poll in which a member produced an item"
                        );
                        let mut i = 0;
                        while i < G {
                            if r.live[i] {
                                if w().polls[i] == 0 {
                                    note(V_NOT_STARTED);
                                }
                            }
                            i += 1;
                        }
                        let live = r.live;
                        let rel = move |i: usize| i < G && live[i];
                        assert_woken_were_polled(before, rel);
                        assert_no_lost_wake(round, rel);
                    }
                }
                pending_round = if res_pending { Some(round) } else { None };
                round += 1;
            }
            let g: &mut StreamGroup<Strm> = if keyed { &mut **keyedg } else { &mut *plain };
            sg_view(g, &r);
            if w().opts != 0 {
                fire_phase();
                if let Some(pr) = pending_round {
                    let live = r.live;
                    assert_no_lost_wake(pr, move |i: usize| i < G && live[i]);
                }
            }
        });
        cover!(r.polls >= 1 && r.inserted >= 1, "polled a non-trivial group");
        cover!(
            w().opts & 3 == 0 || (w().inpoll_wakes >= 1 && w().polls[0] >= 2),
            "(if enabled) a member woke a waker from inside its poll and was polled again"
        );
        let _ = ended_same_poll;
        w().decided = true;
        if !cfg!(feature = "std") {
            unsafe {
                core::mem::ManuallyDrop::drop(&mut plain);
                core::mem::ManuallyDrop::drop(&mut keyedg);
            }
        }
    }
    if !cfg!(feature = "std") {
        assert_children_dropped();
        assert_all_dropped();
    }
    report();
}

/// op encoding for scripted histories: low 2 bits = op (0 insert, 1 remove, 2 reserve, 3 poll),
/// upper bits = argument (member index to remove / amount to reserve); 255 = solver's choice
pub const INS: u8 = 0;
pub const POLL: u8 = 3;
pub const fn rem(j: u8) -> u8 {
    1 | (j << 2)
}
pub const fn rsv(n: u8) -> u8 {
    2 | (n << 2)
}
pub const ANY: u8 = 255;
/// FutureGroup only: `extend` with two futures
pub const EXT2: u8 = 254;
/// forced outcomes: none
pub const FREE: [u16; G] = [0; G];
/// outcome codes, first poll in the low bits
pub const P: u16 = 1;
pub const R: u16 = 2;
pub const N: u16 = 3;
pub const fn seq2(a: u16, b: u16) -> u16 {
    a | (b << 2)
}

// scripted histories (member behaviour, wake-ups and poll results stay symbolic)
crate::proof!(fgroup_drain2, 8, { run_future_group(6, false, &[INS, INS, POLL, POLL, POLL, POLL], FREE) });
crate::proof!(fgroup_keyed_drain2, 8, { run_future_group(6, true, &[INS, INS, POLL, POLL, POLL, POLL], FREE) });
crate::proof!(fgroup_remove_mid, 8, { run_future_group(6, false, &[INS, INS, rem(0), POLL, INS, POLL], FREE) });
crate::proof!(fgroup_micro2, 8, { run_future_group(2, false, &[INS, POLL], FREE) });
crate::proof!(fgroup_micro3, 8, { run_future_group(3, false, &[INS, POLL, POLL], FREE) });
crate::proof!(fgroup_micro4, 8, { run_future_group(4, false, &[INS, INS, POLL, POLL], FREE) });

crate::proof!(sgroup_micro2, 8, { run_stream_group(2, false, 1, &[INS, POLL], FREE) });
crate::proof!(fgroup_keyed_remove_mid, 8, { run_future_group(6, true, &[INS, INS, rem(0), POLL, INS, POLL], FREE) });
crate::proof!(fgroup_ins3_poll3, 8, { run_future_group(6, false, &[INS, INS, INS, POLL, POLL, POLL], FREE) });
crate::proof!(fgroup_rsv_first, 8, { run_future_group(5, false, &[rsv(2), INS, INS, POLL, POLL], FREE) });

// slot reuse / growth / refill with the first polls of member 0 scripted (so that the slab
// index of the re-insert is concrete); everything after is the solver's choice
crate::proof!(fgroup_reuse_after_remove, 8, { run_future_group(6, false, &[INS, POLL, rem(0), INS, POLL, POLL], [P, 0, 0]) });
crate::proof!(fgroup_grow_live, 8, { run_future_group(5, false, &[INS, POLL, INS, POLL, POLL], [P, 0, 0]) });
crate::proof!(sgroup_item_then_any, 8, { run_stream_group(3, false, 2, &[INS, POLL, POLL], [R, 0, 0]) });
crate::proof!(sgroup_two_end_same_poll, 8, { run_stream_group(3, false, 1, &[INS, INS, POLL], FREE) });

// "polling returns None exactly when the group is empty, after which it can be [re]filled and
// used": polling an empty group, then using it. (Refill after a member completed *inside a poll*
// - insert, poll -> output, poll -> None, insert, ... - loses CBMC's precision on the slab / key
// set after the in-poll removal: unwinding assertions fail at 28 GB or the run times out; those
// histories are not part of the claim, see DESIGN.md section 9.)
crate::proof!(fgroup_empty_poll_then_use, 8, { run_future_group(4, false, &[POLL, INS, POLL, POLL], FREE) });
crate::proof!(sgroup_empty_poll_then_use, 8, { run_stream_group(3, false, 1, &[POLL, INS, POLL], FREE) });

// several removals in one history: the slab is no longer dense after the first one (its free
// list head lies below live members), the second removal hits a member above / below the hole.
// `rem(3)`: the member to remove is the solver's choice (dispatched to concrete keys).
crate::proof!(fgroup_remove_two, 8, { run_future_group(5, false, &[INS, INS, rem(0), rem(1), POLL], FREE) });
crate::proof!(fgroup_remove_two_any, 8, { run_future_group(7, false, &[INS, INS, INS, rem(3), rem(3), POLL, POLL], FREE) });
crate::proof!(fgroup_remove_after_yield, 8, { run_future_group(5, false, &[INS, INS, POLL, rem(1), POLL], [R, 0, 0]) });
crate::proof!(fgroup_keyed_remove_two_any, 8, { run_future_group(7, true, &[INS, INS, INS, rem(3), rem(3), POLL, POLL], FREE) });
crate::proof!(sgroup_remove_two, 8, { run_stream_group(5, false, 1, &[INS, INS, rem(0), rem(1), POLL], FREE) });
crate::proof!(sgroup_remove_after_end, 8, { run_stream_group(4, false, 1, &[INS, INS, POLL, rem(1)], [N, P, 0]) });

// a member ends and a later member yields in the same poll (the scan stops at the item): the
// ended member must be forgotten in that very poll (`contains_key`, `len`). Histories that go on
// to *insert* after a member ended inside a poll (slot reuse after an in-poll removal) explode
// even with every outcome scripted (1.2 M steps), see DESIGN.md section 9.
crate::proof!(sgroup_end_and_item_same_poll, 8, { run_stream_group(3, false, 2, &[INS, INS, POLL], [N, R, 0]) });

// `Extend::extend` (reserve(size hint) + insert per item), on an empty group and after an insert
crate::proof!(fgroup_extend2, 8, { run_future_group(4, false, &[EXT2, POLL, POLL, POLL], FREE) });
crate::proof!(fgroup_insert_extend2, 8, { run_future_group(5, false, &[INS, EXT2, POLL, POLL, POLL], FREE) });

// std configuration: the real WakerVec / ReadinessVec / InlineWakerVec are in play
crate::proof!(sgroup_keyed_micro2, 8, { run_stream_group(2, true, 1, &[INS, POLL], FREE) });
crate::proof!(sgroup_rem_then_poll, 8, { run_stream_group(4, false, 1, &[INS, INS, rem(0), POLL], FREE) });
crate::proof!(sgroup_pending_then_any, 8, { run_stream_group(3, false, 1, &[INS, POLL, POLL], [P, 0, 0]) });
crate::proof!(sgroup_keyed_item_then_any, 8, { run_stream_group(3, true, 2, &[INS, POLL, POLL], [R, 0, 0]) });

// std configuration (quiet members: wake-ups between operations only, see STD_OPTS): the real
// WakerVec / ReadinessVec / InlineWakerVec are in play, so C01 (invariant W, also after a
// spurious poll with a fresh waker) and C16 (no poll without a wake) are decided for groups
#[cfg(feature = "std")]
mod std_proofs {
    use super::*;
    crate::proof!(fgroup_std_micro3, 8, { run_future_group(3, false, &[INS, POLL, POLL], FREE) });
    crate::proof!(fgroup_std_micro4, 8, { run_future_group(4, false, &[INS, POLL, POLL, POLL], FREE) });
    crate::proof!(fgroup_std_two, 8, { run_future_group(4, false, &[INS, INS, POLL, POLL], FREE) });
    crate::proof!(fgroup_std_keyed_micro3, 8, { run_future_group(3, true, &[INS, POLL, POLL], FREE) });
    crate::proof!(fgroup_std_remove, 8, { run_future_group(5, false, &[INS, INS, POLL, rem(0), POLL], [P, 0, 0]) });
    crate::proof!(fgroup_std_grow_live, 8, { run_future_group(4, false, &[INS, POLL, INS, POLL], [P, 0, 0]) });
    crate::proof!(fgroup_std_rsv_live, 8, { run_future_group(4, false, &[INS, POLL, rsv(1), POLL], [P, 0, 0]) });
    crate::proof!(fgroup_std_reuse_after_remove, 8, { run_future_group(5, false, &[INS, POLL, rem(0), INS, POLL], [P, 0, 0]) });
    crate::proof!(sgroup_std_reuse_after_remove, 8, { run_stream_group(5, false, 1, &[INS, POLL, rem(0), INS, POLL], [P, 0, 0]) });
    // members may wake themselves from inside their own poll (yield_now style): the wake-up
    // lands while the group has released the readiness lock around the member's poll
    crate::proof!(fgroup_std_selfwake_p, 8, {
        unsafe { STD_OPTS = 5 };
        run_future_group(3, false, &[INS, POLL, POLL], [P, 0, 0])
    });
    crate::proof!(fgroup_std_two_wakes_pp, 8, {
        // two members, both pending in the first poll; self-wakes and sibling wakes from inside polls
        unsafe { STD_OPTS = 7 };
        run_future_group(4, false, &[INS, INS, POLL, POLL], [P, P, 0])
    });
    crate::proof!(fgroup_std_keyed_selfwake_p, 8, {
        unsafe { STD_OPTS = 5 };
        run_future_group(3, true, &[INS, POLL, POLL], [P, 0, 0])
    });
    crate::proof!(sgroup_std_selfwake_p, 8, {
        unsafe { STD_OPTS = 5 };
        run_stream_group(3, false, 1, &[INS, POLL, POLL], [P, 0, 0])
    });
    crate::proof!(sgroup_std_two_wakes_pp, 8, {
        unsafe { STD_OPTS = 7 };
        run_stream_group(4, false, 1, &[INS, INS, POLL, POLL], [P, P, 0])
    });
    crate::proof!(sgroup_std_pending_then_any, 8, { run_stream_group(3, false, 1, &[INS, POLL, POLL], [P, 0, 0]) });
    // FREE first outcome: the path on which the member ends inside the poll needs > 50 GB in std
    // (not registered); the three scripted first outcomes are covered by *_pending_then_any,
    // *_item_then_any (None first: out of reach in std, decided in the alloc configuration)
    crate::proof!(sgroup_std_micro3, 8, { run_stream_group(3, false, 1, &[INS, POLL, POLL], FREE) });
    crate::proof!(sgroup_std_item_then_any, 8, { run_stream_group(3, false, 2, &[INS, POLL, POLL], [R, 0, 0]) });
    crate::proof!(sgroup_std_two, 8, { run_stream_group(4, false, 1, &[INS, INS, POLL, POLL], FREE) });
    crate::proof!(sgroup_std_grow_live, 8, { run_stream_group(4, false, 1, &[INS, POLL, INS, POLL], [P, 0, 0]) });
}
