#!/usr/bin/env python3
"""Refresh measured.json (wall time / peak RSS per harness, used only for scheduling and for the
quick/thorough split in gen_registry.py) from the evidence files and the driver's result cache."""
import glob, json, os
ROOT = os.path.dirname(os.path.abspath(__file__))
p = os.path.join(ROOT, "measured.json")
M = json.load(open(p)) if os.path.exists(p) else {}
seen = 0
srcs = glob.glob(os.path.join(ROOT, "work", "cache", "*", "*", "*.json"))
srcs.sort(key=os.path.getmtime)
for f in srcs:
    if f.endswith(".pb.json"):
        continue
    try:
        r = json.load(open(f))
    except Exception:
        continue
    if r.get("status") != "ok" or not r.get("maxrss_gb"):
        continue
    M[r["config"] + " " + r["name"]] = {"maxrss_gb": r["maxrss_gb"], "wall_s": r["wall_s"]}
    seen += 1
json.dump(M, open(p, "w"), indent=0, sort_keys=True)
print("measured.json:", len(M), "entries,", seen, "cache records read")
