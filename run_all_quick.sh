#!/bin/bash
# Runs every claimed property's quick check in sequence (shared result cache), prints exit codes and wall times.
cd "$(dirname "$0")"
for p in $(python3 -c "import json;print(' '.join(c['property_id'] for c in json.load(open('MANIFEST.json'))['checks']))"); do
  t0=$(date +%s)
  ./check $p --tier ${1:-quick} > work/last_$p.out 2> work/last_$p.err
  rc=$?
  echo "$p exit=$rc wall=$(( $(date +%s) - t0 ))s $(grep -c cached work/last_$p.err) cached / $(grep -c '^\[' work/last_$p.err) harnesses; $(grep -E '^(VIOLATION|INCONCLUSIVE|KNOWN)' work/last_$p.out | head -3 | tr '\n' ';')"
done
